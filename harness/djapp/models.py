from django.db import models


class Row(models.Model):
    """scalar table of the C01/C02/C03 value domain; `grp` selects the block of rows of one column subset"""
    grp = models.IntegerField()
    n = models.IntegerField(null=True)
    m = models.IntegerField(null=True)
    s = models.CharField(max_length=40, null=True)
    u = models.CharField(max_length=40, null=True)
    b = models.BooleanField(null=True)
    d = models.DateTimeField(null=True)
    e = models.DateTimeField(null=True)
    dd = models.DateField(null=True)
    tt = models.TimeField(null=True)
    du = models.DurationField(null=True)
    g = models.CharField(max_length=40, null=True)      # GUIDs kept as text (not exercised through Django)

    class Meta:
        app_label = "djapp"


class Org(models.Model):
    name = models.TextField(null=True)
    k = models.IntegerField(null=True)
    lead = models.ForeignKey("Author", null=True, on_delete=models.SET_NULL, related_name="+")    # back to Author

    class Meta:
        app_label = "djapp"


class PostInfo(models.Model):
    tag = models.CharField(max_length=20, null=True)

    class Meta:
        app_label = "djapp"


class AuthorInfo(models.Model):
    tag = models.CharField(max_length=20, null=True)

    class Meta:
        app_label = "djapp"


class Author(models.Model):
    name = models.TextField(null=True)
    age = models.IntegerField(null=True)
    rank = models.IntegerField(default=1)
    org = models.ForeignKey(Org, null=True, on_delete=models.CASCADE, related_name="authors")
    info = models.ForeignKey(AuthorInfo, null=True, on_delete=models.CASCADE, related_name="+")
    home = models.ForeignKey(Org, null=False, default=1, on_delete=models.CASCADE, related_name="+")   # a NOT NULL key
    boss = models.ForeignKey("self", null=True, on_delete=models.SET_NULL, related_name="+")           # self-referential

    class Meta:
        app_label = "djapp"


class Post(models.Model):
    title = models.TextField(null=True)
    n = models.IntegerField(null=True)
    author = models.ForeignKey(Author, null=True, on_delete=models.CASCADE, related_name="posts")
    info = models.ForeignKey(PostInfo, null=True, on_delete=models.CASCADE, related_name="+")
    authors = models.ManyToManyField(Author, related_name="edited")  # the editors; shares its name with Org.authors

    class Meta:
        app_label = "djapp"


class Comment(models.Model):
    text = models.TextField(null=True)
    k = models.IntegerField()
    post = models.ForeignKey(Post, null=True, on_delete=models.CASCADE, related_name="comments")

    class Meta:
        app_label = "djapp"


# ---- schema for the C12 / C08 translation checks (no data needed)
class Other2(models.Model):
    c = models.IntegerField(null=True)

    class Meta:
        app_label = "djapp"


class Other(models.Model):
    p = models.IntegerField(null=True)
    name = models.CharField(max_length=40, null=True)
    b = models.ForeignKey(Other2, null=True, on_delete=models.CASCADE, related_name="+")

    class Meta:
        app_label = "djapp"


class Thing(models.Model):
    n = models.IntegerField(null=True)
    m = models.IntegerField(null=True)
    f = models.FloatField(null=True)
    s = models.CharField(max_length=40, null=True)
    u = models.CharField(max_length=40, null=True)
    b = models.BooleanField(null=True)
    d = models.DateTimeField(null=True)
    dd = models.DateField(null=True)
    tt = models.TimeField(null=True)
    du = models.DurationField(null=True)
    gid = models.UUIDField(null=True)
    g = models.CharField(max_length=80, null=True)
    l = models.CharField(max_length=80, null=True)
    a = models.ForeignKey(Other, null=True, on_delete=models.CASCADE, related_name="things")
    a2 = models.ForeignKey(Other, null=True, on_delete=models.CASCADE, related_name="+")      # a second route into Other

    class Meta:
        app_label = "djapp"


class Child(models.Model):
    # the same scalar columns as Thing: inside a lambda body the ORMs resolve fields on the child model
    n = models.IntegerField(null=True)
    f = models.FloatField(null=True)
    s = models.CharField(max_length=40, null=True)
    b = models.BooleanField(null=True)
    d = models.DateTimeField(null=True)
    dd = models.DateField(null=True)
    tt = models.TimeField(null=True)
    du = models.DurationField(null=True)
    gid = models.UUIDField(null=True)
    g = models.CharField(max_length=80, null=True)
    l = models.CharField(max_length=80, null=True)
    a = models.ForeignKey(Other, null=True, on_delete=models.CASCADE, related_name="+")
    thing = models.ForeignKey(Thing, null=True, on_delete=models.CASCADE, related_name="cs")
    other = models.ForeignKey(Other, null=True, on_delete=models.CASCADE, related_name="cs")

    class Meta:
        app_label = "djapp"
