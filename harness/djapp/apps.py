from django.apps import AppConfig


class DjappConfig(AppConfig):
    name = "djapp"
    default_auto_field = "django.db.models.AutoField"
