#!/venv/bin/python
"""Entry point:  check.py <PROPERTY> [--tier quick|thorough] [--replay path]

exit 0: property held on everything explored (KNOWN-FINDING lines allowed)
exit 1: VIOLATION property=<id> replay=<path>
exit 2: machinery failure (TLC crash, lost output, harness bug) - never reported as a violation
"""
import argparse
import importlib
import os
import sys
import traceback

sys.dont_write_bytecode = True
HERE = os.path.dirname(os.path.abspath(__file__))
sys.path.insert(0, HERE)
os.environ.setdefault("PYTHONHASHSEED", "0")


def main():
    ap = argparse.ArgumentParser()
    ap.add_argument("prop")
    ap.add_argument("--tier", default=os.environ.get("VERIF_TIER", "quick"), choices=["quick", "thorough"])
    ap.add_argument("--replay", default=None)
    a = ap.parse_args()
    seed = int(os.environ.get("VERIF_SEED", "0") or 0)
    import common
    import tlc
    try:
        mod = importlib.import_module("props." + a.prop.lower())
        ctx = common.Ctx(a.prop.upper(), a.tier, seed)
        if a.replay:
            import json
            rep = json.load(open(a.replay))
            mod.replay(ctx, rep)
        else:
            mod.run(ctx)
        return ctx.finish()
    except tlc.MachineryError as e:
        print("MACHINERY-FAILURE property=%s: %s" % (a.prop, e))
        return 2
    except Exception:
        traceback.print_exc()
        print("MACHINERY-FAILURE property=%s (harness exception)" % a.prop)
        return 2


if __name__ == "__main__":
    sys.exit(main())
