"""C17 - making a lambda body relative strips exactly the lambda variable's prefix.

TLC (MC_C17) enumerates (expression, variable) pairs and computes Rewrite!Relative (law checked on the spec: no
path rooted at the variable => identity).  Replay through utils.expression_relative_to_identifier with real AST
objects; also input immutability and independence from previous calls (a second call with another variable in
between must not change the result).
"""
import os

import project
import tlc


def rel(var, tree_node):
    from odata_query.utils import expression_relative_to_identifier
    return expression_relative_to_identifier(var, tree_node)


def check_case(ctx, r, prev):
    key = {"var": r["var"][2]}
    node = project.build(r["tree"])
    before = project.proj(node)
    var = project.build(r["var"])
    ctx.traces += 1
    try:
        got = project.proj(rel(var, node))
    except Exception as e:  # noqa
        ctx.violation(dict(key, what="raised", exc=type(e).__name__), {"case": r, "exc": str(e)[:200]})
        return
    if got != r["expected"]:
        ctx.violation(dict(key, what="wrong-result"), {"case": r, "got": got})
        return
    if project.proj(node) != before:
        ctx.violation(dict(key, what="input-mutated"), {"case": r})
        return
    # history independence: interleave a call for another variable on the same objects, then repeat
    if prev.get("node") is not None:
        rel(prev["var"], node)
        rel(var, prev["node"])
    again = project.proj(rel(var, node))
    if again != r["expected"]:
        ctx.violation(dict(key, what="history-dependent"), {"case": r, "got": again, "previous_var": project.proj(prev["var"])})
        return
    prev["node"], prev["var"] = node, var
    if got != before:
        ctx.nontriv([r["tree"], r["var"]])
        if r["nops"] >= 1:
            ctx.sample({"tree": r["tree"], "var": r["var"][2], "expected": r["expected"]}, cap=5)


_PREV = {}


def _both_orders(ctx, records):
    for r in records:
        check_case(ctx, r, _PREV)
    for r in reversed(records):
        check_case(ctx, r, _PREV)


def run(ctx):
    ctx.rule = ("(expression, variable): all trees with <= MaxOps operator/bracket nodes over 25 atoms (paths of depth "
                "1..4 rooted at the variable / elsewhere / at a namespaced namesake, variable name as inner segment, "
                "nested lambdas) x 3 variable names; non-trivial = distinct pair whose expected result differs from "
                "the input")
    ctx.trusted = ["spec/Rewrite.tla Relative", "harness/project.py"]
    big = ctx.tier != "quick"
    raw = os.path.join(tlc.BUILD, "c17_export_%d.txt" % os.getpid()) if big else None
    res = tlc.run("MC_C17", constants={"MaxOps": 1 if ctx.tier == "quick" else 2},
                  keep_lines=lambda r: r.get("k") == "case", timeout=7000, heap="12g", raw_out=raw)
    ctx.add_tlc(res)
    if res.violation:
        ctx.violation({"kind": "model", "inv": res.violation}, {"tlc": res.raw_tail[-2000:]})
    if big:
        # millions of pairs: decoded and replayed in slices by forked workers (each slice forwards and backwards)
        try:
            n = ctx.parallel_file(raw, _both_orders, keep=lambda r: r.get("k") == "case", batch=4000)
        finally:
            os.unlink(raw)
        if res.violation is None and n != res.distinct:
            raise tlc.MachineryError("C17: %d exported lines decoded, TLC reports %d distinct states" % (n, res.distinct))
    else:
        prev = {}
        # two passes in different orders, so that cross-call state shows whichever case comes first
        recs = res.records
        for r in recs:
            check_case(ctx, r, prev)
        for r in reversed(recs[:4000]):
            check_case(ctx, r, prev)
    ctx.exhaustive = True


def replay(ctx, rep):
    check_case(ctx, rep["detail"]["case"], {})
