"""C07 - no filter string can inject SQL through the raw SQL dialects.

TLC (MC_C07) enumerates pairs of filter texts that differ only in the content of one string literal (51 syntactic
positions x 38 adversarial contents: quotes, comment markers, semicolons, backslashes, NUL, Unicode quotes incl.
compatibility forms, LIKE wildcards, newlines) or in the spelling of one field.  Both members are translated by
the three dialects (with and without table alias); the emitted SQL pair is a trace validated by TLC with the
SqlLex automaton (Trace_Sql): both end in normal mode, contain no comment / semicolon / unlexable token, have the
same token skeleton, differ only inside string-literal (resp. quoted-identifier) tokens, and do differ (the content
is not dropped).  SQLite outputs are additionally prepared by a real SQLite (no syntax error).
"""
import json
import os
import sqlite3

import project
import tlc

U = project.uncps


def dialects():
    from odata_query.sql import AstToAthenaSqlVisitor, AstToSqliteSqlVisitor, AstToSqlVisitor
    return [("sql", AstToSqlVisitor), ("sqlite", AstToSqliteSqlVisitor), ("athena", AstToAthenaSqlVisitor)]


_VIS = {}


def translate(V, alias, text):
    from odata_query import exceptions as ex
    try:
        node = project.parse(text)
    except ex.ODataException as e:
        return ("rejected", type(e).__name__)
    try:
        if (V, alias) not in _VIS:          # one reused visitor instance per dialect and alias
            _VIS[(V, alias)] = V(alias)
        out = _VIS[(V, alias)].visit(node)
    except ex.ODataException as e:
        return ("refused", type(e).__name__)
    except Exception as e:  # noqa
        return ("crash", type(e).__name__)
    if not isinstance(out, str):
        return ("nonstring", repr(out)[:80])
    return ("ok", out)


def run(ctx):
    ctx.rule = ("pairs of filters differing in one string literal (51 positions, incl. next to operands of every other literal type, x 38 contents, incl. contents shaped like date/time/number/GUID/null literals followed by a quote) or one field spelling "
                "(8 positions x 11 spellings) x 3 dialects x alias on/off; non-trivial = distinct pair whose two SQL "
                "texts were produced and compared")
    ctx.trusted = ["spec/SqlLex.tla (the definition of a SQL string-literal / quoted-identifier token)"]
    # thorough: additionally every content of length 1..2 over a 17-character hostile alphabet (306 more contents per position)
    res = tlc.run("MC_C07", constants={"Deep": "FALSE" if ctx.tier == "quick" else "TRUE"},
                  keep_lines=lambda r: r.get("k") == "case", timeout=7000, heap="12g")
    ctx.add_tlc(res)
    if res.violation:
        ctx.violation({"kind": "model", "inv": res.violation}, {"tlc": res.raw_tail[-2000:]})
    conn = sqlite3.connect(":memory:")
    conn.execute('CREATE TABLE t (s TEXT, u TEXT, fld TEXT)')
    traces = []
    info = {}
    for r in res.records:
        t1, t2 = U(r["text1"]), U(r["text2"])
        for dname, V in dialects():
            for alias in (None, "T1x"):
                a = translate(V, alias, t1)
                b = translate(V, alias, t2)
                ctx.evaluations += 1
                key = {"dialect": dname, "fam": r["fam"], "pos": r["pos"]}
                if a[0] != b[0] or (a[0] != "ok" and a != b and a[0] != "rejected"):
                    if b[0] == "rejected" and r["fam"] == "field":
                        continue          # not an accepted filter: outside the property
                    ctx.violation(dict(key, what="content-dependent-outcome", outcome=[a[0], b[0]]),
                                  {"text1": t1, "text2": t2, "a": a, "b": b, "alias": alias, "case": r})
                    continue
                if a[0] == "crash":
                    continue              # internal errors are C12's business (same for both members)
                if a[0] != "ok":
                    continue
                cid = len(traces) + 1
                traces.append({"id": cid, "kind": "pair", "vary": "STR" if r["fam"] == "lit" else "QID",
                               "o1": project.cps(a[1]), "o2": project.cps(b[1])})
                info[cid] = (key, t1, t2, a[1], b[1], alias, r)
                if dname == "sqlite" and alias is None and r["fam"] == "lit" and "\x00" not in b[1]:
                    try:
                        conn.execute("EXPLAIN SELECT 1 FROM t WHERE (%s)" % b[1])
                    except sqlite3.Error as e:
                        msg = str(e)
                        if "syntax" in msg or "unrecognized token" in msg or "incomplete" in msg:
                            ctx.violation(dict(key, what="sqlite-syntax-error"), {"text2": t2, "sql": b[1], "error": msg, "case": r})
    for a in range(0, len(traces), 25000):          # one TLC run per batch (JsonDeserialize of a huge file dominates otherwise)
        validate(ctx, traces[a:a + 25000], info)
    ctx.exhaustive = True


def validate(ctx, traces, info):
    if not traces:
        return
    path = os.path.join(tlc.BUILD, "trace_sql_%d.json" % os.getpid())
    os.makedirs(tlc.BUILD, exist_ok=True)
    with open(path, "w") as f:
        json.dump(traces, f)
    try:
        res = tlc.run("Trace_Sql", env={"TRACE_FILE": path}, check_count=False,
                      keep_lines=lambda r: r.get("k") == "verdict", timeout=3000, heap="12g")
    finally:
        os.unlink(path)
    ctx.add_tlc(res)
    seen = {r["id"]: r["v"] for r in res.records}
    if len(seen) != len(traces):
        raise tlc.MachineryError("Trace_Sql: %d verdicts for %d traces" % (len(seen), len(traces)))
    for cid, v in seen.items():
        ctx.traces += 1
        key, t1, t2, o1, o2, alias, r = info[cid]
        if v != "ok":
            ctx.violation(dict(key, what=v), {"text1": t1, "text2": t2, "sql1": o1, "sql2": o2, "alias": alias, "case": r})
        else:
            ctx.nontriv([t2, key["dialect"], alias])
            if "'" in t2 and r["fam"] == "lit":
                ctx.sample({"filter": t2, "dialect": key["dialect"], "sql": o2}, cap=5)


def replay(ctx, rep):
    d = rep["detail"]
    r = d["case"]
    print("text1:", d.get("text1")); print("text2:", d.get("text2")); print("sql1:", d.get("sql1")); print("sql2:", d.get("sql2"))
    traces, info = [], {}
    t1, t2 = U(r["text1"]), U(r["text2"])
    for dname, V in dialects():
        for alias in (None, "T1x"):
            a, b = translate(V, alias, t1), translate(V, alias, t2)
            if a[0] == "ok" and b[0] == "ok":
                cid = len(traces) + 1
                traces.append({"id": cid, "kind": "pair", "vary": "STR" if r["fam"] == "lit" else "QID", "o1": project.cps(a[1]), "o2": project.cps(b[1])})
                info[cid] = ({"dialect": dname, "fam": r["fam"], "pos": r["pos"]}, t1, t2, a[1], b[1], alias, r)
            elif a[0] != b[0]:
                ctx.violation({"dialect": dname, "what": "content-dependent-outcome"}, d)
    validate(ctx, traces, info)
