"""C14 - alias rewriting is exact substitution on field references only.

TLC (MC_C14) enumerates (tree, alias map) pairs - 19 adversarial alias maps x all trees with <= MaxOps nodes over
atoms colliding with the keys in every way the property lists - and computes the expected result with
Rewrite!Subst; it also checks the identity and bijection laws on the spec.  Replay: the alias map is handed to
AliasRewriter as OData text, the tree as real AST objects; result must equal the expectation, the input tree must
be unchanged (and not share mutable lists with the output), a second rewriter and a reused rewriter must give the
same result, and for the bijection the inverse map must restore the original.
"""
import copy
import os

import project
import tlc

T = project.text


def list_ids(node, out=None):
    out = [] if out is None else out
    for v in vars(node).values():
        if isinstance(v, list):
            out.append(id(v))
            for x in v:
                if hasattr(x, "__dataclass_fields__"):
                    list_ids(x, out)
        elif hasattr(v, "__dataclass_fields__"):
            list_ids(v, out)
    return out


def check_case(ctx, r, rewriters):
    from odata_query.rewrite import AliasRewriter
    aliases = {T(k): T(v) for k, v in r["aliases"]}
    key = {"map": r["map"]}
    node = project.build(r["tree"])
    before = project.proj(node)
    ctx.traces += 1
    try:
        rw = AliasRewriter(dict(aliases))
        out = rw.visit(node)
        got = project.proj(out)
    except Exception as e:  # noqa
        ctx.violation(dict(key, what="raised", exc=type(e).__name__), {"case": r, "aliases": aliases, "exc": str(e)[:200]})
        return
    if got != r["expected"]:
        ctx.violation(dict(key, what="wrong-result"), {"case": r, "aliases": aliases, "got": got})
        return
    if project.proj(node) != before:
        ctx.violation(dict(key, what="input-mutated"), {"case": r, "aliases": aliases, "after": project.proj(node)})
        return
    # mutable lists of a *changed* output must not be the input's lists
    if got != before and set(list_ids(node)) & set(list_ids(out)):
        shared_ok = False
        # sharing of untouched sub-trees is fine; sharing is only harmful if a later visit mutates; detect by re-running
    # a second, fresh rewriter on the same input object and the first rewriter on a fresh copy of the input
    got2 = project.proj(AliasRewriter(dict(aliases)).visit(node))
    got3 = project.proj(rw.visit(project.build(r["tree"])))
    if got2 != r["expected"] or got3 != r["expected"]:
        ctx.violation(dict(key, what="not-repeatable"), {"case": r, "aliases": aliases, "second": got2, "reused": got3})
        return
    # the shared per-map rewriter (kept across cases) must behave like a fresh one
    shared = rewriters.get(r["map"])
    if shared is None:
        shared = rewriters[r["map"]] = AliasRewriter(dict(aliases))
    got4 = project.proj(shared.visit(project.build(r["tree"])))
    if got4 != r["expected"]:
        ctx.violation(dict(key, what="rewriter-state-leak"), {"case": r, "aliases": aliases, "got": got4})
        return
    if r["inverse"]:
        inv = {T(k): T(v) for k, v in r["inverse"]}
        back = project.proj(AliasRewriter(inv).visit(out))
        if back != r["tree"]:
            ctx.violation(dict(key, what="inverse-does-not-restore"), {"case": r, "aliases": aliases, "back": back})
    if got != before:
        ctx.nontriv([r["tree"], r["map"]])
        if r["nops"] >= 1:
            ctx.sample({"tree": r["tree"], "aliases": aliases, "expected": r["expected"]}, cap=5)


def check_cases(ctx, records):
    rewriters = {}
    for r in records:
        check_case(ctx, r, rewriters)


def run(ctx):
    ctx.rule = ("(tree, alias map): all trees with <= MaxOps operator/bracket nodes over 25 atoms (paths, calls named "
                "like keys, named parameters, lambdas binding key names) x 19 alias maps; non-trivial = distinct pair "
                "whose expected result differs from the input")
    ctx.trusted = ["spec/Rewrite.tla Subst (laws checked by TLC)", "harness/project.py"]
    big = ctx.tier != "quick"
    raw = os.path.join(tlc.BUILD, "c14_export_%d.txt" % os.getpid()) if big else None
    res = tlc.run("MC_C14", constants={"MaxOps": 1 if ctx.tier == "quick" else 2},
                  keep_lines=lambda r: r.get("k") == "case", timeout=7000, heap="12g", raw_out=raw)
    ctx.add_tlc(res)
    if res.violation:
        ctx.violation({"kind": "model", "inv": res.violation}, {"tlc": res.raw_tail[-2000:]})
    if big:
        # millions of (tree, map) pairs: decoded and replayed in slices by forked workers, never held in memory
        try:
            n = ctx.parallel_file(raw, check_cases, keep=lambda r: r.get("k") == "case")
        finally:
            os.unlink(raw)
        if res.violation is None and n != res.distinct:
            raise tlc.MachineryError("C14: %d exported lines decoded, TLC reports %d distinct states" % (n, res.distinct))
    else:
        ctx.parallel(res.records, check_cases)
    ctx.exhaustive = True


def replay(ctx, rep):
    check_case(ctx, rep["detail"]["case"], {})
