"""C16 - visitor and transformer base classes traverse completely and never mutate.

TLC (MC_C16) enumerates trees over every node kind x override set (none / one class) and computes the expected
transformer result (Visitor!ReplaceKind); invariants on the spec: the default traversal logs every node exactly
once, an override for an absent class is the identity.  The dispatch log of the real NodeVisitor (entries written
by the handler that was actually invoked) is validated event by event against the Visitor machine by TLC
(Trace_Visit).  Replay: NodeTransformer without overrides returns an equal tree, with one override exactly the
expected tree; no traversal / rewrite / backend translation modifies its input; `==` on real trees coincides with
structural identity of the spec trees.
"""
import json
import os

import project
import tlc

TOKENS = {"Add", "Sub", "Mult", "Div", "Mod", "Eq", "NotEq", "Lt", "LtE", "Gt", "GtE", "In", "And", "Or", "Not",
          "USub", "Any", "All"}


_SHARED = {}


def _shared_class(base_name):
    """ONE recorder class per base for the whole run: handlers are attached to the visitor OBJECT (as the library's own
    tests do with mocks), after other objects of the same class have already walked trees without them - a dispatch
    decision remembered per class would show."""
    if base_name not in _SHARED:
        from odata_query import visitor
        base = getattr(visitor, base_name)

        class Shared(base):
            def generic_visit(self, node):
                self.log.append([type(node).__name__, "generic_visit"])
                return super().generic_visit(node)
        _SHARED[base_name] = Shared
    return _SHARED[base_name]


def make_recorder(over):
    rec = _shared_class("NodeVisitor")()
    rec.log = log = []
    for k in over:
        def h(node, k=k):
            log.append([type(node).__name__, "visit_" + k])
        setattr(rec, "visit_" + k, h)
    return rec, log


def make_rec_transformer(over):
    """a NodeTransformer whose handlers only record that they were called (and change nothing)"""
    rec = _shared_class("NodeTransformer")()
    rec.log = log = []
    for k in over:
        def h(node, k=k):
            log.append([type(node).__name__, "visit_" + k])
            return node
        setattr(rec, "visit_" + k, h)
    return rec, log


def make_transformer(over, swap):
    from odata_query import ast
    from odata_query.visitor import NodeTransformer

    class Tr(NodeTransformer):
        pass

    for k in over:
        if k in TOKENS:
            rev = {v: kk for kk, v in list(project.BIN.items()) + list(project.CMP.items()) + list(project.BOOL.items())
                   + list(project.UN.items()) + list(project.COLL.items())}
            target = rev[swap]

            def h(self, node, target=target):
                return target()
        else:
            def h(self, node):
                return ast.Identifier("MARK")
        setattr(Tr, "visit_" + k, h)
    return Tr()


class _Identity:
    def __init__(self):
        from odata_query.visitor import NodeTransformer
        self.t = NodeTransformer()

    def visit(self, node):
        return self.t.visit(node)


IDENTITY = None


def rooted_at_plain_a(tree):
    """does the tree contain a path whose root is the un-namespaced identifier a?"""
    k = tree[0]
    if k == "Attr":
        x = tree
        while x[0] == "Attr":
            x = x[1]
        return x == ["Id", [], "a"] or rooted_at_plain_a(x)
    return any(rooted_at_plain_a(c) for c in _kids(tree))


def _kids(t):
    k = t[0]
    if k in ("Id", "Lit", "None", "Hole"):
        return []
    if k == "List":
        return t[1]
    if k in ("Bin", "Cmp", "Bool"):
        return [t[2], t[3]]
    if k == "Un":
        return [t[2]]
    if k == "Call":
        return [t[1]] + t[2]
    if k in ("Named", "Lam"):
        return [t[1], t[2]]
    if k == "Coll":
        return [t[1]] + ([] if t[3] == ["None"] else [t[3]])
    if k == "Attr":
        return [t[1]]
    return []


def shipped_visitors():
    from odata_query import ast
    from odata_query.rewrite import AliasRewriter, IdentifierStripper
    from odata_query.roundtrip import AstToODataVisitor
    from odata_query.sql import AstToAthenaSqlVisitor, AstToSqliteSqlVisitor, AstToSqlVisitor
    vs = [("sql", lambda: AstToSqlVisitor()), ("sqlite", lambda: AstToSqliteSqlVisitor("t")),
          ("athena", lambda: AstToAthenaSqlVisitor()), ("roundtrip", lambda: AstToODataVisitor()),
          ("alias", lambda: AliasRewriter({"a": "zz/y", "a/p": "ap"})),
          ("stripper", lambda: IdentifierStripper(ast.Identifier("a")))]
    try:
        import backends
        vs += backends.orm_visitors()
    except ImportError:
        pass
    return vs


def run(ctx):
    ctx.rule = ("trees with <= MaxOps operator/bracket nodes over every node kind (all literal kinds, nested lists, "
                "named parameters, lambdas with/without body) x override set (none, each class occurring in the tree, "
                "two absent classes); non-trivial = distinct (tree, override) with >= 4 dispatches")
    ctx.trusted = ["spec/Visitor.tla field table (transcribed from the documented AST)", "harness/project.py"]
    quick = ctx.tier == "quick"
    plans = [{"MaxOps": 1, "Wide": "TRUE"}, {"MaxOps": 2, "Wide": "FALSE"}] if quick else \
            [{"MaxOps": 2, "Wide": "TRUE"}, {"MaxOps": 2, "Wide": "FALSE"}]
    cases = []
    recs = []
    for consts in plans:
        if not quick and consts["Wide"] == "TRUE":
            res = tlc.run("MC_C16", constants=consts, simulate=6000 // 16, depth=12, seed=ctx.seed + 16,
                          keep_lines=lambda r: r.get("k") in ("case", "scope"), timeout=3000, check_count=False)
        else:
            res = tlc.run("MC_C16", constants=consts, keep_lines=lambda r: r.get("k") in ("case", "scope"), timeout=7000, heap="12g")
        ctx.add_tlc(res)
        if res.violation:
            ctx.violation({"kind": "model", "inv": res.violation}, {"tlc": res.raw_tail[-2000:]})
        recs += res.records
    scope_checks(ctx, [r for r in recs if r.get("k") == "scope"])
    recs = [r for r in recs if r.get("k") == "case"]
    seen = set()
    uniq = []
    for r in recs:
        kx = json.dumps([r["tree"], r["over"]])
        if kx not in seen:
            seen.add(kx)
            uniq.append(r)
    recs = uniq
    trees = {}
    for r in recs:
        node = project.build(r["tree"])
        before = project.proj(node)
        key = {"over": r["over"][0] if r["over"] else "none"}
        # --- visitor dispatch log
        rec, log = make_recorder(r["over"])
        try:
            rec.visit(node)
        except Exception as e:  # noqa
            ctx.violation(dict(key, what="visitor-raised", exc=type(e).__name__), {"case": r, "exc": str(e)[:200]})
            continue
        cases.append({"id": len(cases) + 1, "tree": r["tree"], "over": r["over"], "log": log, "base": "NodeVisitor"})
        # --- the transformer dispatches like the visitor: every node once, in field order, to the handler named after its kind
        rect, tlog = make_rec_transformer(r["over"])
        try:
            rect.visit(node)
            cases.append({"id": len(cases) + 1, "tree": r["tree"], "over": r["over"], "log": tlog, "base": "NodeTransformer"})
        except Exception as e:  # noqa
            ctx.violation(dict(key, what="transformer-raised", exc=type(e).__name__), {"case": r, "exc": str(e)[:200]})
        # --- transformer
        ctx.traces += 1
        try:
            out = make_transformer(r["over"], r["swap"]).visit(node)
            got = project.proj(out)
        except Exception as e:  # noqa
            ctx.violation(dict(key, what="transformer-raised", exc=type(e).__name__), {"case": r, "exc": str(e)[:200]})
            continue
        if got != r["transformed"]:
            ctx.violation(dict(key, what="transformer-result"), {"case": r, "got": got})
        if project.proj(node) != before:
            ctx.violation(dict(key, what="transformer-mutated-input"), {"case": r, "after": project.proj(node)})
        if len(log) >= 4:
            ctx.nontriv([r["tree"], r["over"]])
            if r["over"]:
                ctx.sample({"tree": r["tree"], "override": r["over"], "dispatch_log": log[:12]}, cap=4)
        trees[json.dumps(r["tree"])] = r["tree"]
    by_id = {c["id"]: c for c in cases}
    validate_logs(ctx, cases, by_id)
    # --- shipped visitors never mutate their input
    global IDENTITY
    IDENTITY = _Identity()
    vis = shipped_visitors()
    ctx.notes["shipped_visitors"] = [n for n, _ in vis]
    tl = list(trees.values())
    for tree in tl:
        for name, mk in vis:
            node = project.build(tree)
            lists_before = project.list_ids(node) if hasattr(project, "list_ids") else None
            try:
                mk().visit(node)
            except Exception:  # noqa  (refusals are C12's business)
                pass
            ctx.traces += 1
            if project.proj(node) != tree:
                ctx.violation({"what": "visitor-mutated-input", "visitor": name}, {"tree": tree, "after": project.proj(node)})
                continue
            # ... and leaves it usable: a transformer without overrides run over the SAME objects afterwards still
            # returns an equal tree (hidden per-node state left behind by a translation would show here)
            try:
                again = project.proj(IDENTITY.visit(node))
            except Exception as e:  # noqa
                ctx.violation({"what": "tree-unusable-after-visit", "visitor": name, "exc": type(e).__name__}, {"tree": tree, "msg": str(e)[:200]})
                continue
            if again != tree:
                ctx.violation({"what": "tree-unusable-after-visit", "visitor": name}, {"tree": tree, "after": again})
            # the shipped single-override transformer: a tree without a path rooted at the plain identifier `a` is returned unchanged
            if name == "stripper" and not rooted_at_plain_a(tree):
                out = project.proj(mk().visit(project.build(tree)))
                if out != tree:
                    ctx.violation({"what": "transformer-changed-foreign-nodes", "visitor": name}, {"tree": tree, "after": out})
    # --- equality is structural identity
    import random
    rng = random.Random(ctx.seed + 160)
    # every small tree (the atoms, incl. literals of equal value and different spelling) and a random sample of the rest
    small = [x for x in tl if len(json.dumps(x)) < 140]
    rest = [x for x in tl if len(json.dumps(x)) >= 140]
    sample = small[:250] + (rest if len(rest) <= 250 else rng.sample(rest, 250))
    built = [project.build(x) for x in sample]
    for i in range(len(sample)):
        if not (built[i] == project.build(sample[i])):
            ctx.violation({"what": "equal-trees-compare-unequal"}, {"tree": sample[i]})
        for j in range(i + 1, len(sample)):
            ctx.evaluations += 1
            if (built[i] == built[j]) != (sample[i] == sample[j]):
                ctx.violation({"what": "eq-disagrees-with-structure"}, {"a": sample[i], "b": sample[j]})
    ctx.evaluations += ctx.traces
    ctx.exhaustive = quick


def scope_checks(ctx, recs):
    """the shipped transformers change exactly what their handlers change, where lambda scopes nest, re-bind and end"""
    from odata_query import ast
    from odata_query.rewrite import AliasRewriter, IdentifierStripper
    if not recs:
        raise tlc.MachineryError("MC_C16 exported no scope record")
    rec = recs[0]
    aliases = {project.text(k): project.text(v) for k, v in rec["sigma"]}
    shared = AliasRewriter(dict(aliases))
    for c in rec["cases"]:
        for how, mk in (("fresh", lambda: AliasRewriter(dict(aliases))), ("reused", lambda: shared)):
            node = project.build(c["tree"])
            ctx.traces += 1
            try:
                got = project.proj(mk().visit(node))
            except Exception as e:  # noqa
                ctx.violation({"what": "shipped-transformer-raised", "visitor": "alias", "exc": type(e).__name__}, {"tree": c["tree"], "msg": str(e)[:200]})
                continue
            if got != c["aliased"]:
                ctx.violation({"what": "shipped-transformer-result", "visitor": "alias", "instance": how},
                              {"tree": c["tree"], "aliases": aliases, "expected": c["aliased"], "got": got})
            if project.proj(node) != c["tree"]:
                ctx.violation({"what": "visitor-mutated-input", "visitor": "alias"}, {"tree": c["tree"], "after": project.proj(node)})
        node = project.build(c["tree"])
        ctx.traces += 1
        try:
            got = project.proj(IdentifierStripper(ast.Identifier("i")).visit(node))
        except Exception as e:  # noqa
            ctx.violation({"what": "shipped-transformer-raised", "visitor": "stripper", "exc": type(e).__name__}, {"tree": c["tree"], "msg": str(e)[:200]})
            continue
        if got != c["relative"]:
            ctx.violation({"what": "shipped-transformer-result", "visitor": "stripper"}, {"tree": c["tree"], "expected": c["relative"], "got": got})
    ctx.notes["scope_trees"] = len(rec["cases"])


def validate_logs(ctx, cases, by_id):
    if not cases:
        return
    path = os.path.join(tlc.BUILD, "trace_visit_%d.json" % os.getpid())
    os.makedirs(tlc.BUILD, exist_ok=True)
    with open(path, "w") as f:
        json.dump(cases, f)
    try:
        res = tlc.run("Trace_Visit", env={"TRACE_FILE": path}, check_count=False,
                      keep_lines=lambda r: r.get("k") == "verdict", timeout=3000, heap="12g")
    finally:
        os.unlink(path)
    ctx.add_tlc(res)
    seen = {r["id"]: r for r in res.records}
    if len(seen) != len(cases):
        raise tlc.MachineryError("Trace_Visit: %d verdicts for %d traces" % (len(seen), len(cases)))
    for cid, v in seen.items():
        ctx.traces += 1
        if v["v"] != "ok":
            c = by_id[cid]
            ctx.violation({"what": "dispatch-trace-rejected", "verdict": v["v"], "over": c["over"][0] if c["over"] else "none", "base": c.get("base", "")},
                          {"tree": c["tree"], "over": c["over"], "log": c["log"], "at": v["at"], "verdict": v["v"]})


def replay(ctx, rep):
    print(json.dumps(rep["detail"], indent=1)[:3000])
    run(ctx)
