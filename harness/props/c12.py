"""C12 - a backend that cannot express a construct refuses it instead of mistranslating.

TLC (MC_C12) plants every construct the parser can produce in every operand position that accepts its type and
exports, per filter, the inventory of fields and literals a complete translation must represent.  Each of the 7
backends (standard / SQLite / Athena SQL, round-trip, Django, SQLAlchemy ORM, SQLAlchemy Core) translates the
filter; outcome class, emitted / compiled SQL and bound parameters are a trace that TLC validates (Trace_Complete):
the outcome must be allowed by the contract (library exception; NotImplementedError only for Core with paths or
lambdas; ImportError only for GeoDjango), and an accepted translation must be well-formed, free of placeholders and
represent every field and every literal.  Unknown field names on the SQLAlchemy backends must raise
InvalidFieldException.
"""
import json
import os

import backends
import project
import tlc

U = project.uncps
UNKNOWN = ["nope", "Nope", "__tablename__", "metadata", "registry", "__init__", "__class__", "__dict__", "keys", "values",
           "items", "get", "columns", "c", "query", "id_", "n_"]
# names that exist on the root model but not on the related one: unknown behind the path even after the root resolved them
SAME_NAME = ["n", "s", "gid"]
SAME_NAME_CTX = ["n eq 1 and a/%s eq 2", "a/%s eq 2 or s eq 'k'", "gid ne null and not (a/%s eq null)", "cs/any(x: x/n eq 1) and a/%s eq 1"]
UNKNOWN_CTX = ["%s eq 1", "tolower(%s) eq 'a'", "contains(%s, '')", "endswith(%s, '') or n eq 1", "1 lt %s add 1", "n in (%s, 1)", "cs/any(x: x/%s eq 1)", "a/%s eq 1", "not (%s eq null)"]


def needles(kind, val, textual=False):
    """spellings under which a literal may appear in a translation.  textual: the three SQL dialects write the literal
    into the SQL text - a date-time keeps every part of its spelling there (fraction, offset, Z)"""
    if kind == "Integer":
        return [str(abs(val))]
    if kind == "Float":
        return [val, repr(float(val)), str(int(float(val)))]
    if kind == "String":
        return [U(val)] if val else None
    if kind == "Date":
        return [val]
    if kind == "Time":
        return [val]
    if kind == "DateTime":
        if textual:
            return [val, val.replace("T", " ")]
        import dateutil.parser
        import datetime as _dt
        d = dateutil.parser.isoparse(val)
        alts = [val, val.replace("T", " ").rstrip("Z"), val.replace("T", " "), str(d)]
        if d.tzinfo is not None:          # bound as the same instant: aware as written, or naive UTC
            alts.append(str(d.astimezone(_dt.timezone.utc).replace(tzinfo=None)))
        return alts
    if kind == "Duration":
        return ["73", str(73 * 86400 * 10 ** 6)] if val == "P73D" else None
    if kind == "GUID":
        return [val, val.replace("-", "")]
    if kind == "Geography":
        return [val]
    return None


def classify(fn):
    from odata_query import exceptions as ex
    try:
        out = fn()
    except ex.ODataException as e:
        return ("refused", type(e).__name__, "", [])
    except NotImplementedError as e:
        return ("notimpl", str(e)[:80], "", [])
    except ImportError as e:
        return ("importerror", str(e)[:80], "", [])
    except Exception as e:  # noqa
        return ("crash", type(e).__name__ + ": " + str(e)[:120], "", [])
    if isinstance(out, tuple):
        return ("ok", "", out[0], [str(p) for p in out[1]])
    if not isinstance(out, str):
        return ("crash", "non-string output %r" % (out,), "", [])
    return ("ok", "", out, [])


def backends_table():
    from odata_query.roundtrip import AstToODataVisitor
    from odata_query.sql import AstToAthenaSqlVisitor, AstToSqliteSqlVisitor, AstToSqlVisitor
    sa = backends.ThingSa()
    v1, v2, v3 = AstToSqlVisitor(), AstToSqliteSqlVisitor(), AstToAthenaSqlVisitor("al")     # reused for the whole run
    return [("sql", True, lambda t: v1.visit(project.parse(t))),
            ("sqlite", True, lambda t: v2.visit(project.parse(t))),
            ("athena", True, lambda t: v3.visit(project.parse(t))),
            ("django", False, backends.django_thing),
            ("sa-orm", False, sa.orm),
            ("sa-core", False, sa.core)], sa


def run(ctx):
    ctx.rule = ("every construct (all literal kinds, unary minus, paths, lambdas, named parameters, every built-in "
                "function, list arguments, custom namespaces) x every operand position accepting its type x 7 backends; "
                "plus unknown field names x 7 contexts on the SQLAlchemy backends; non-trivial = distinct (filter, "
                "backend) pair that produced a translation which was validated")
    ctx.trusted = ["spec/SqlLex.tla + spec/SqlRead.tla", "needle spellings per literal kind (harness/props/c12.py)",
                   "exception classification by class membership"]
    res = tlc.run("MC_C12", keep_lines=lambda r: r.get("k") == "case", timeout=3000)
    ctx.add_tlc(res)
    table, sa = backends_table()
    traces, info = [], {}
    for r in res.records:
        text = U(r["text"])
        nd_orm = [n for n in (needles(k, v) for k, v in r["lits"]) if n]
        nd_txt = [n for n in (needles(k, v, True) for k, v in r["lits"]) if n]
        for bname, is_expr, fn in table:
            nd = nd_txt if is_expr else nd_orm
            ctx.evaluations += 1
            oc = classify(lambda: fn(text))
            cid = len(traces) + 1
            traces.append({"id": cid, "backend": bname, "nav": r["nav"], "geo": r["geo"], "expr": is_expr, "outcome": oc[0],
                           "out": project.cps(oc[2]), "params": [project.cps(p) for p in oc[3]],
                           "fields": [project.cps(f) for f in r["fields"]], "needles": [[project.cps(a) for a in n] for n in nd]})
            info[cid] = ({"backend": bname, "ty": r["ty"], "ctxt": r["ctxt"], "root": root_of(r["tree"]),
                          "pinned": "floor/ceiling" if bname == "sql" and ("floor(" in text or "ceiling(" in text) else ""}, text, oc, r)
        # round trip: must render or refuse, never crash; completeness is C13's business
        from odata_query.roundtrip import AstToODataVisitor
        oc = classify(lambda: AstToODataVisitor().visit(project.parse(text)))
        ctx.evaluations += 1
        if oc[0] not in ("ok", "refused"):
            ctx.violation({"backend": "roundtrip", "ty": r["ty"], "ctxt": r["ctxt"], "what": "forbidden-outcome", "detail": oc[1][:60]},
                          {"text": text, "outcome": oc[:2], "case": r})
        elif oc[0] == "ok":
            # a complete rendering represents every field, literal, operator and call (with its namespace): read back,
            # it is the filter's own tree
            ctx.traces += 1
            try:
                back = project.proj(project.parse(oc[2]))
            except Exception as e:  # noqa
                back = ["unreadable", type(e).__name__]
            if back != project.proj(project.parse(text)):
                ctx.violation({"backend": "roundtrip", "ty": r["ty"], "ctxt": r["ctxt"], "what": "incomplete-rendering", "root": root_of(r["tree"])},
                              {"text": text, "rendered": oc[2][:400], "read_back": back, "case": r})
    validate(ctx, traces, info)
    # unknown fields on the SQLAlchemy backends
    from odata_query import exceptions as ex
    for name, tpl in [(n, t) for n in UNKNOWN for t in UNKNOWN_CTX] + [(n, t) for n in SAME_NAME for t in SAME_NAME_CTX]:
        if True:
            text = tpl % name
            for bname, fn in (("sa-orm", sa.orm), ("sa-legacy", lambda t: sa.orm(t, True)), ("sa-core", sa.core)):
                if bname == "sa-core" and ("/" in text):
                    continue
                ctx.traces += 1
                try:
                    fn(text)
                    got = "accepted"
                except ex.InvalidFieldException:
                    got = "invalidfield"
                except Exception as e:  # noqa
                    got = type(e).__name__
                if got != "invalidfield":
                    ctx.violation({"backend": bname, "what": "unknown-field-not-reported", "name": name, "got": got},
                                  {"text": text, "got": got})
    ctx.exhaustive = True


def root_of(tree):
    return tree[1][2] if tree[0] == "Call" else tree[0] + (":" + tree[1] if tree[0] in ("Bin", "Cmp", "Bool", "Un") else "")


def validate(ctx, traces, info):
    if not traces:
        return
    os.makedirs(tlc.BUILD, exist_ok=True)
    path = os.path.join(tlc.BUILD, "trace_complete_%d.json" % os.getpid())
    with open(path, "w") as f:
        json.dump(traces, f)
    try:
        res = tlc.run("Trace_Complete", env={"TRACE_FILE": path}, check_count=False,
                      keep_lines=lambda r: r.get("k") == "verdict", timeout=3000, heap="12g")
    finally:
        os.unlink(path)
    ctx.add_tlc(res)
    seen = {r["id"]: r["v"] for r in res.records}
    if len(seen) != len(traces):
        raise tlc.MachineryError("Trace_Complete: %d verdicts for %d traces\n%s" % (len(seen), len(traces), res.raw_tail[-1500:]))
    for cid, v in seen.items():
        ctx.traces += 1
        key, text, oc, r = info[cid]
        if v != "ok":
            ctx.violation(dict(key, what=v, outcome=oc[0], detail=oc[1][:50]), {"text": text, "outcome": oc[0], "detail": oc[1], "out": oc[2][:600], "params": oc[3], "case": r})
        elif oc[0] == "ok":
            ctx.nontriv([text, key["backend"]])
            if key["backend"] in ("django", "sa-orm") and len(ctx.samples) < 6:
                ctx.sample({"filter": text, "backend": key["backend"], "sql": oc[2][:200], "params": oc[3]}, cap=6)


def replay(ctx, rep):
    d = rep["detail"]
    print(json.dumps({k: d[k] for k in d if k != "case"}, indent=1)[:2000])
    if "case" not in d:
        return run(ctx)
    table, sa = backends_table()
    r = d["case"]
    text = U(r["text"])
    traces, info = [], {}
    nd_orm = [n for n in (needles(k, v) for k, v in r["lits"]) if n]
    nd_txt = [n for n in (needles(k, v, True) for k, v in r["lits"]) if n]
    for bname, is_expr, fn in table:
        nd = nd_txt if is_expr else nd_orm
        oc = classify(lambda: fn(text))
        cid = len(traces) + 1
        traces.append({"id": cid, "backend": bname, "nav": r["nav"], "geo": r["geo"], "expr": is_expr, "outcome": oc[0],
                       "out": project.cps(oc[2]), "params": [project.cps(p) for p in oc[3]],
                       "fields": [project.cps(f) for f in r["fields"]], "needles": [[project.cps(a) for a in n] for n in nd]})
        info[cid] = ({"backend": bname, "ty": r["ty"], "ctxt": r["ctxt"], "root": root_of(r["tree"])}, text, oc, r)
    validate(ctx, traces, info)
