"""C05 - parser groups operators as the OData precedence table dictates.

TLC (MC_C05) enumerates every tree with <= MaxOps operator/bracket nodes, checks the design theorem
SpecParse(Print*(t)) = t for four reference renderings, and exports tree + renderings.  Here every
rendering is parsed by the real lexer+parser and the projected AST compared with the tree.
"""
import project
import tlc


def check_records(ctx, recs, label):
    for r in recs:
        if r.get("k") != "case":
            continue
        tree = r["tree"]
        for mode in ("min", "full", "bws", "fullbws"):
            s = project.text(r[mode])
            got = project.outcome(s)
            ctx.traces += 1
            if got != ["ok", tree]:
                ctx.violation({"kind": "parse-mismatch", "mode": mode, "text": s},
                              {"text": s, "expected": tree, "got": got, "gen": label})
        if r["nops"] >= 2:
            ctx.nontriv(tree)
        if r["nops"] >= 2:
            ctx.sample({"tree": tree, "min": project.text(r["min"]), "full": project.text(r["full"]),
                        "fullbws": project.text(r["fullbws"])})


def run(ctx):
    ctx.rule = ("every expression tree with <= MaxOps operator/bracket nodes (derivation machine MC_C05); "
                "each is rendered min/full/bws/fullbws by the spec printer and parsed by the real parser; "
                "non-trivial = distinct tree with >= 2 operator nodes")
    ctx.trusted = ["spec/OData.tla precedence table + printers (checked against the spec parser by TLC)",
                   "harness/project.py AST projection"]
    keep = lambda r: r.get("k") == "case"
    if ctx.tier == "quick":
        res = tlc.run("MC_C05", constants={"MaxOps": 2, "Wide": "TRUE"}, keep_lines=keep)
        ctx.add_tlc(res)
        if res.violation:
            ctx.violation({"kind": "model", "inv": res.violation}, {"tlc": res.raw_tail[-2000:]})
        check_records(ctx, res.records, "wide2")
        ctx.exhaustive = True
    else:
        res = tlc.run("MC_C05", constants={"MaxOps": 2, "Wide": "TRUE"}, keep_lines=keep)
        ctx.add_tlc(res)
        check_records(ctx, res.records, "wide2")
        res = tlc.run("MC_C05", constants={"MaxOps": 3, "Wide": "FALSE"}, keep_lines=keep, timeout=7200)
        ctx.add_tlc(res)
        if res.violation:
            ctx.violation({"kind": "model", "inv": res.violation}, {"tlc": res.raw_tail[-2000:]})
        check_records(ctx, res.records, "narrow3")
        ctx.exhaustive = True


def replay(ctx, rep):
    d = rep["detail"]
    got = project.outcome(d["text"])
    ctx.traces += 1
    print("text:", d["text"]); print("expected:", d["expected"]); print("got:", got)
    if got != ["ok", d["expected"]]:
        ctx.violation(rep["key"], d)
