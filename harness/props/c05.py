"""C05 - parser groups operators as the OData precedence table dictates.

TLC (MC_C05) enumerates every tree with <= MaxOps operator/bracket nodes, checks the design theorem
SpecParse(Print*(t)) = t for four reference renderings, and exports tree + renderings.  Here every
rendering is parsed by the real lexer+parser and the projected AST compared with the tree.
"""
import json
import os

import project
import tlc


def check_records(ctx, recs, label):
    for r in recs:
        if r.get("k") != "case":
            continue
        tree = r["tree"]
        for mode in ("min", "full", "bws", "fullbws"):
            s = project.text(r[mode])
            got = project.outcome(s)
            ctx.traces += 1
            if got != ["ok", tree]:
                ctx.violation({"kind": "parse-mismatch", "mode": mode, "text": s},
                              {"text": s, "expected": tree, "got": got, "gen": label})
        if r["nops"] >= 2:
            ctx.nontriv(tree)
        if r["nops"] >= 2:
            ctx.sample({"tree": tree, "min": project.text(r["min"]), "full": project.text(r["full"]),
                        "fullbws": project.text(r["fullbws"])})


def validate_reductions(ctx, recs, stride):
    """trace validation of the real parser's node-creating reductions against Reduce!ReduceTrace (Trace_Reduce)"""
    import lrtrace
    traces, info = [], {}
    for i, r in enumerate(recs):
        if r.get("k") != "case" or i % stride:
            continue
        for mode in ("min", "fullbws"):
            s = project.text(r[mode])
            try:
                tree, events = lrtrace.reductions(s)
            except Exception:  # noqa  (rejections are reported by check_records)
                continue
            cid = len(traces) + 1
            traces.append({"id": cid, "tree": tree, "events": events})
            info[cid] = (s, events)
    if not traces:
        return
    os.makedirs(tlc.BUILD, exist_ok=True)
    path = os.path.join(tlc.BUILD, "trace_reduce_%d.json" % os.getpid())
    with open(path, "w") as f:
        json.dump(traces, f)
    try:
        res = tlc.run("Trace_Reduce", env={"TRACE_FILE": path}, check_count=False,
                      keep_lines=lambda r: r.get("k") == "verdict", timeout=7000, heap="12g")
    finally:
        os.unlink(path)
    ctx.add_tlc(res)
    seen = {r["id"]: r for r in res.records}
    if len(seen) != len(traces):
        raise tlc.MachineryError("Trace_Reduce: %d verdicts for %d traces" % (len(seen), len(traces)))
    for cid, v in seen.items():
        ctx.traces += 1
        if v["v"] != "ok":
            s, events = info[cid]
            ctx.violation({"kind": "reduction-trace-rejected", "verdict": v["v"]}, {"text": s, "at": v["at"], "events": events})
    ctx.notes["reduction_traces_validated"] = ctx.notes.get("reduction_traces_validated", 0) + len(traces)


def chains(ctx, constants):
    """long runs: K1 x o1 then K2 x o2, left- and right-nested (MC_C05_chain) -- associativity at every length"""
    res = tlc.run("MC_C05_chain", constants=constants, keep_lines=lambda r: r.get("k") == "case", timeout=7200)
    ctx.add_tlc(res)
    if res.violation:
        ctx.violation({"kind": "model", "inv": res.violation, "gen": "chain"}, {"tlc": res.raw_tail[-2000:]})
    check_records(ctx, res.records, "chain")
    ctx.notes["chain_cases"] = len(res.records)


def paths_run(ctx, keep):
    """the same three-segment path under a namespaced and under a plain root, as operands of every operator and bracket"""
    res = tlc.run("MC_C05", constants={"MaxOps": 1, "Wide": "TRUE", "Paths": "TRUE"}, keep_lines=keep)
    ctx.add_tlc(res)
    if res.violation:
        ctx.violation({"kind": "model", "inv": res.violation}, {"tlc": res.raw_tail[-2000:]})
    check_records(ctx, res.records, "paths1")


def run(ctx):
    ctx.rule = ("every expression tree with <= MaxOps operator/bracket nodes (derivation machine MC_C05); "
                "plus left- and right-nested runs of up to 148 (quick) / 560 (thorough) operators (MC_C05_chain); "
                "each is rendered min/full/bws/fullbws by the spec printer and parsed by the real parser; "
                "non-trivial = distinct tree with >= 2 operator nodes")
    ctx.trusted = ["spec/OData.tla precedence table + printers (checked against the spec parser by TLC)",
                   "spec/Reduce.tla (order of node-creating reductions prescribed by the grammar's structure)",
                   "harness/project.py AST projection"]
    keep = lambda r: r.get("k") == "case"
    if ctx.tier == "quick":
        res = tlc.run("MC_C05", constants={"MaxOps": 2, "Wide": "TRUE"}, keep_lines=keep)
        ctx.add_tlc(res)
        if res.violation:
            ctx.violation({"kind": "model", "inv": res.violation}, {"tlc": res.raw_tail[-2000:]})
        check_records(ctx, res.records, "wide2")
        validate_reductions(ctx, res.records, 4)
        paths_run(ctx, keep)
        chains(ctx, {})
        ctx.exhaustive = True
    else:
        res = tlc.run("MC_C05", constants={"MaxOps": 2, "Wide": "TRUE"}, keep_lines=keep)
        ctx.add_tlc(res)
        check_records(ctx, res.records, "wide2")
        validate_reductions(ctx, res.records, 1)
        res = tlc.run("MC_C05", constants={"MaxOps": 3, "Wide": "FALSE"}, keep_lines=keep, timeout=7200)
        ctx.add_tlc(res)
        if res.violation:
            ctx.violation({"kind": "model", "inv": res.violation}, {"tlc": res.raw_tail[-2000:]})
        check_records(ctx, res.records, "narrow3")
        paths_run(ctx, keep)
        chains(ctx, {"Lens1": "{1, 2, 16, 17, 18, 19, 33, 64, 100, 257, 520}", "Lens2": "{0, 1, 17, 18, 40}", "Mixed": "TRUE"})
        ctx.exhaustive = True


def replay(ctx, rep):
    d = rep["detail"]
    got = project.outcome(d["text"])
    ctx.traces += 1
    print("text:", d["text"]); print("expected:", d["expected"]); print("got:", got)
    if got != ["ok", d["expected"]]:
        ctx.violation(rep["key"], d)
