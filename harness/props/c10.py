"""C10 - parsing any string terminates with an AST or one of the library's syntax/function errors.

Inputs: (a) TLC-enumerated sequences of <= K lexical atoms (MC_C10 mode "atoms"); (b) TLC-generated single-token
mutations of valid filters (mode "mut"); (c) parametric long inputs (paths, chains, nesting, lists) up to 64 KB;
(d) seeded random text incl. arbitrary Unicode.  Oracle = the property's own statement, applied to the real
lexer+parser: the outcome is an ast._Node or one of the four library exceptions, it is the same when repeated
(fresh instances and reused instances), and it arrives within TIME_LIMIT.  For (a)/(b) the spec's predicted
outcome class is compared as well and reported as drift in the evidence (never a failure: accepting more or less
syntax does not contradict C10).
"""
import json
import os
import random
import select
import subprocess
import sys

import project
import tlc

HERE = os.path.dirname(os.path.dirname(os.path.abspath(__file__)))
TIME_LIMIT = 20.0
ALLOWED = {"ok", "syntax", "token", "unknown", "argc"}


class Worker:
    """Parses inputs in a child process so that a hang can be observed (and the child killed)."""

    def __init__(self):
        self.p = None

    def start(self):
        env = dict(os.environ)
        env["PYTHONHASHSEED"] = "0"
        self.p = subprocess.Popen([sys.executable, "-B", os.path.join(HERE, "parse_worker.py")],
                                  stdin=subprocess.PIPE, stdout=subprocess.PIPE, env=env, text=True, bufsize=1)

    def stop(self):
        if self.p is not None:
            self.p.kill()
            self.p.wait()
            self.p = None

    def ask(self, batch, limit, diag=False):
        """-> list of results, or None on timeout (child killed)."""
        if self.p is None:
            self.start()
        self.p.stdin.write(json.dumps({"batch": batch, "diag": diag}) + "\n")
        self.p.stdin.flush()
        r, _, _ = select.select([self.p.stdout], [], [], limit)
        if not r:
            self.stop()
            return None
        line = self.p.stdout.readline()
        if not line:
            self.stop()
            raise tlc.MachineryError("parse worker died")
        return json.loads(line)["res"]


WORKER = Worker()


def diagnose(ctx, s, spec, got):
    """Conformance of the real error behaviour with spec/Diag.tla (which error, at which token).  This is MORE than
    C10 states (C10 only fixes the alphabet of outcomes), so a difference is recorded in the evidence, never a violation."""
    d = ctx.notes.setdefault("diagnosis_vs_spec", {"exact": 0, "class-only (misplaced whitespace)": 0, "noverdict": 0, "mismatch": 0})
    if spec[0] == "noverdict" or got is None:
        d["noverdict"] += 1
        return
    if spec[0] in ("syntax", "token") and spec[0] == got[0] and spec[1] == -2:
        d["class-only (misplaced whitespace)"] += 1
        return
    if list(spec) == list(got):
        d["exact"] += 1
        return
    d["mismatch"] += 1
    ex = ctx.notes.setdefault("diagnosis_mismatch_examples", [])
    if len(ex) < 12:
        ex.append({"text": s[:120], "spec": spec, "real": got})


def judge(ctx, s, origin, res, pred=None, sdiag=None):
    ctx.traces += 1
    key = None
    if res is None:
        key = {"kind": "no-termination-within-limit"}
        got = ["hang"]
        ctx.hangs = getattr(ctx, "hangs", 0) + 1
    else:
        cls, dg, detail, nondet, dt = res[:5]
        got = [cls] + list(detail)
        if sdiag is not None and len(res) > 5:
            diagnose(ctx, s, sdiag, res[5])
        if cls == "skipped":
            ctx.traces -= 1
            return got
        first = ctx.__dict__.setdefault("first_outcome", {})
        if s not in first:
            first[s] = (cls, dg)
        elif first[s] != (cls, dg) and key is None:
            key = {"kind": "outcome-depends-on-earlier-inputs", "was": first[s][0], "now": cls}
        if cls not in ALLOWED:
            key = {"kind": "outcome-" + cls, "exc": detail[0] if cls in ("foreign", "libother") and detail else ""}
        elif nondet:
            key = key or {"kind": "nondeterministic"}
        elif dt > TIME_LIMIT:
            key = key or {"kind": "no-termination-within-limit"}
    if key is not None:
        key["origin"] = origin
        ctx.violation(key, {"text": s if len(s) < 2000 else s[:200] + "...(%d chars)" % len(s),
                            "text_cps": project.cps(s) if len(s) < 500 else None, "gen": origin, "got": got[:3]})
    if pred is not None and res is not None:
        d = ctx.notes.setdefault("prediction_vs_outcome", {})
        k = "%s->%s" % (pred, got[0])
        d[k] = d.get(k, 0) + 1
        if pred not in (got[0], "noverdict"):
            ex = ctx.notes.setdefault("drift_examples", {})
            if k not in ex:
                ex[k] = s[:120]
    return got


def many(ctx, items, origin_of, batch=400):
    """items: list of (text, pred|None, tag). Returns list of outcome classes."""
    out = []
    for i in range(0, len(items), batch):
        if getattr(ctx, "hangs", 0) >= 5:      # enough evidence of non-termination: do not wait for thousands more
            out.extend([["skipped"]] * (len(items) - i))
            break
        chunk = items[i:i + batch]
        want_diag = any(len(c) > 3 and c[3] is not None for c in chunk)
        res = WORKER.ask([c[0] for c in chunk], TIME_LIMIT + 10, want_diag)
        if res is None:
            # find the culprit(s) one by one
            res = []
            for c in chunk:
                if getattr(ctx, "hangs", 0) + sum(1 for x in res if x is None) >= 5:
                    res.append(["skipped", "", [], False, 0.0])
                    continue
                r = WORKER.ask([c[0]], TIME_LIMIT)
                res.append(None if r is None else r[0])
        for c, r in zip(chunk, res):
            out.append(judge(ctx, c[0], origin_of(c), r, c[1], c[3] if len(c) > 3 else None))
    return out


def one(ctx, s, origin, pred=None):
    if getattr(ctx, "hangs", 0) >= 5:
        return ["skipped"]
    r = WORKER.ask([s], TIME_LIMIT)
    return judge(ctx, s, origin, None if r is None else r[0], pred)


def validate_diagnoses(ctx, texts, limit):
    """Random / Unicode inputs have no TLC-side prediction: the outcome the real parser gave (which error, where) is
    a trace validated against Diag.tla under TLC (Trace_Diag).  Like diagnose(): evidence, never a violation."""
    texts = [t for t in dict.fromkeys(texts) if len(t) <= 160][:limit]
    if not texts or getattr(ctx, "hangs", 0):
        return
    res = WORKER.ask(texts, TIME_LIMIT + 30, True)
    if res is None:
        return
    cases = [{"id": i + 1, "text": project.cps(t), "real": r[5]} for i, (t, r) in enumerate(zip(texts, res)) if r[5][0] != "other"]
    path = os.path.join(tlc.BUILD, "trace_diag_%d.json" % os.getpid())
    os.makedirs(tlc.BUILD, exist_ok=True)
    with open(path, "w") as f:
        json.dump(cases, f)
    try:
        out = tlc.run("Trace_Diag", env={"TRACE_FILE": path}, check_count=False, keep_lines=lambda r: r.get("k") == "verdict",
                      timeout=3000, heap="12g")
    finally:
        os.unlink(path)
    ctx.add_tlc(out)
    seen = {r["id"]: r for r in out.records}
    if len(seen) != len(cases):
        raise tlc.MachineryError("Trace_Diag: %d verdicts for %d traces" % (len(seen), len(cases)))
    d = ctx.notes.setdefault("diagnosis_vs_spec_random_inputs", {"ok": 0, "noverdict": 0, "differs": 0})
    for c in cases:
        v = seen[c["id"]]
        d[v["v"]] += 1
        if v["v"] == "differs":
            ex = ctx.notes.setdefault("diagnosis_mismatch_examples", [])
            if len(ex) < 12:
                ex.append({"text": project.uncps(c["text"])[:120], "spec": v["spec"], "real": c["real"]})


def families(tier):
    big = 64000
    out = []
    def add(name, s):
        out.append((name, s))
    # literals that have the lexical shape of their kind but no value (calendar-invalid, out of range): building the
    # node must not let a foreign exception escape from tokenising
    odd = ["2021-02-29T10:00:00Z", "2021-04-31T00:00:00", "2021-05-00T12:30:00+02:00", "2021-02-30", "2021-00-10", "2021-13-01",
           "0000-01-01", "24:00:00", "23:59:60", "12:30:00.1234567890123", "duration'P99999999999D'", "duration'PT0S'", "1e999", "-1e-999",
           "9" * 400 + ".5", "2021-02-29T25:00:00Z", "2020-02-29T23:59:59+23:59", "2020-02-29T23:59:59+24:00", "2020-02-29T23:59",
           "00000000-0000-0000-0000-00000000000g", "geography'POINT(", "true1", "nullnull", "1..2", "1.e3", ".5", "5.", "0x10", "1_000",
           # keywords spelled with the two letters that case-fold to ASCII under re.I (LONG S, KELVIN SIGN)
           "fal\u017fe", "FAL\u017fE", "\u017f", "a eq\u00a0fal\u017fe", "\u212a", "nu\u0131l", "tr\u00fce"]
    for i, lit in enumerate(odd):
        for j, tpl in enumerate(["%s", "x eq %s", "%s eq x", "f.g(%s)", "x in (%s, 1)", "a/any(v: v eq %s)", "year(%s) eq 1", "not (%s ne x)"]):
            add("odd-literal-%d-%d" % (i, j), tpl % lit)
    # valid filters with members that are not plain literals (a parser that hashes, sorts or compares AST nodes meets
    # unhashable lists and very deep operands here)
    for j, f in enumerate(["x in ((1, 2), (3, 4))", "name in (concat(first, 'x'), 'y')", "d in (now(), 2020-01-01T00:00:00Z)",
                           "x in (%s, 2)" % " add ".join(["1"] * 3000), "x in (a/b/c, tolower(s), (1,), f.g(k=(1, 2)))",
                           "hassubset(((1, 2), (3,)), ((1, 2),))", "f.g(a=(1, (2, 3)), b=now())", "x in (x, x, x)",
                           "concat((1, 2), (1, 2)) eq (1, 2, 1, 2)", "a/b/c gt 1 and a/b/c lt 5 and a/b/c ne a/b/c"]):
        add("valid-nesting-%d" % j, f)
    for n in (3, 50, 400, 1500):
        add("path-%d" % n, "/".join(["seg"] * n) + " eq 1")
        add("path-any-%d" % n, "/".join(["seg"] * n) + "/any()")
        add("path-lambda-%d" % n, "/".join(["seg"] * n) + "/all(x: x/" + "/".join(["q"] * n) + " eq 1)")
    for n in (10, 1000, 9000):
        add("chain-and-%d" % n, " and ".join(["a eq 1"] * n))
        add("chain-add-%d" % n, " add ".join(["1"] * n) + " eq 2")
        add("chain-not-%d" % n, "not " * n + "a")
        add("chain-neg-%d" % n, "- " * n + "a eq 1")
        add("parens-%d" % n, "(" * n + "a" + ")" * n)
        add("parens-unbalanced-%d" % n, "(" * n + "a" + ")" * (n - 1))
        add("list-%d" % n, "a in (" + ", ".join(str(i) for i in range(n)) + ")")
        add("nested-lists-%d" % n, "a in " + "(" * n + "1," + ")" * n + "")
        add("calls-%d" % n, "tolower(" * n + "a" + ")" * n + " eq 'x'")
        add("concat-%d" % n, "concat(" * n + "a" + ", 'x')" * n + " eq 'x'")
        add("string-%d" % n, "a eq '" + "x''" * n + "'")
        add("named-%d" % n, "f.g(" + ", ".join("p%d=%d" % (i, i) for i in range(n)) + ")")
        add("args-%d" % n, "f.g(" + ", ".join(str(i) for i in range(n)) + ")")
        add("commas-%d" % n, "," * n)
        add("quotes-%d" % n, "'" * n)
        add("quotes-odd-%d" % n, "'" * (2 * n + 1))
        add("ws-%d" % n, "a" + " " * n + "eq" + "\t" * n + "1")
        add("digits-%d" % n, "a eq " + "9" * n)
        add("frac-%d" % n, "a eq 1." + "9" * n + "e" + "9" * 3)
        add("ident-%d" % n, "a" * n + " eq 1")
        add("dots-%d" % n, ".".join(["ab"] * n) + " eq 1")
    for n in (3, 40, 300):
        add("lambdas-%d" % n, "".join("c%d/any(x%d: " % (i, i) for i in range(n)) + "true" + ")" * n)
    # namesakes inside and outside the geo namespace, bare spelling first (parsed again at the end of the run)
    for i, t in enumerate(["distance(a, b) lt 5", "intersects(a, b)", "geo.trim(s) eq 'a'", "geo.contains(s, 'a')", "length(a, b) eq 1",
                           "geo.distance(a, b) lt 5", "geo.intersects(a, b)", "trim(s) eq 'a'", "contains(s, 'a')", "geo.length(a) eq 1",
                           "geo.length(a, b) eq 1", "length(a) eq 1"]):
        add("namesake-%d" % i, t)
    add("unterminated-string-64k", "a eq '" + "x" * big)
    add("unterminated-geography-64k", "a eq geography'" + "x" * big)
    add("bad-char-tail", "a eq 1 " + "#" * big)
    add("duration-long", "a eq duration'P" + "9" * big + "D'")
    return [(nm, s) for nm, s in out if len(s) <= 70000]


FRAGS = ["a", "b1", "nullable", "ns.f", "1", "-2", "1.5e3", "'s'", "''", "(", ")", ",", "/", ":", "=", " ", "  ",
         "\t", "\n", " eq ", " and ", " or ", " add ", " in ", " ne ", "not ", "-", "any", "all", "null", "true",
         "false", "concat", "now", "length", "substring", "foo", "#", "'", "2020-01-01", "2020-01-01T10:00:00Z",
         "12:30:00", "duration'P1D'", "duration'", "geography'", "geo.length", "x:", "01234567-89ab-cdef-0123-456789abcdef",
         "é", "​", " ", "\U0001F4A5", "١٢", "ſ", "K", "\x00", "\x1f", "\x85", "\xa0",
         "﻿", "%", "\\", '"', ";", "--", "/*", "$", "@", "[", "]", "{", "}", "+", "*", "e", "E", ".", "T", "Z"]


def random_texts(rng, n):
    out = []
    for _ in range(n):
        k = rng.randint(1, 14)
        if rng.random() < 0.25:
            s = "".join(chr(rng.choice([rng.randint(0, 0x7f), rng.randint(0x80, 0x2fff), rng.randint(0x1f000, 0x1faff)]))
                        for _ in range(k * 2))
        else:
            s = "".join(rng.choice(FRAGS) for _ in range(k))
        out.append(s)
    return out


def run(ctx):
    ctx.rule = ("inputs: all sequences of <= K of 36 lexical atoms (TLC, exhaustive), all single-token mutations of "
                "all valid filters with <= MaxOps operators (TLC, exhaustive), parametric long inputs up to 64 KB, "
                "seeded random fragments/Unicode; oracle: outcome in {node, Tokenizing, Parsing, UnknownFunction, "
                "ArgumentCount}, repeatable, within %ss; non-trivial = distinct input whose outcome is not a "
                "syntax error at the first token (counted: outcome class ok/unknown/argc/token)" % TIME_LIMIT)
    ctx.trusted = ["harness/project.py outcome projection"]
    keep = lambda r: r.get("k") == "case"
    quick = ctx.tier == "quick"
    plans = [("atoms", {"K": 3, "Mode": '"atoms"'}), ("mut", {"Mode": '"mut"', "MaxOps": 1 if quick else 2})]
    if not quick:
        plans.insert(1, ("atoms4", {"K": 4, "Mode": '"atoms"'}))
    seen = set()
    try:
        for label, consts in plans:
            res = tlc.run("MC_C10", constants=consts, keep_lines=keep, timeout=7000, heap="12g")
            ctx.add_tlc(res)
            if res.violation:      # DiagAgreesWithParse: the two readings of the specification must agree (a defect of the spec)
                raise tlc.MachineryError("MC_C10: spec-level invariant %s violated\n%s" % (res.violation, res.raw_tail[-1500:]))
            items = []
            for r in res.records:
                s = project.uncps(r["text"])
                if s in seen:
                    continue
                seen.add(s)
                items.append((s, r["pred"], label, r.get("diag")))
            gots = many(ctx, items, lambda c: c[2])
            for (s, _, _, _), got in zip(items, gots):
                if got[0] in ("ok", "unknown", "argc", "token"):
                    ctx.nontriv(s)
                    if got[0] != "token":
                        ctx.sample({"text": s, "outcome": got[0], "origin": label}, cap=5)
        for nm, s in families(ctx.tier):
            one(ctx, s, "family:" + nm.rsplit("-", 1)[0])
            ctx.nontriv(nm)
        ctx.sample({"family": "path-1500", "chars": len("/".join(["seg"] * 1500))}, cap=7)
        rng = random.Random(ctx.seed * 7919 + 10)
        items = [(s, None, "random") for s in random_texts(rng, 4000 if quick else 60000)]
        gots = many(ctx, items, lambda c: "random")
        for (s, _, _), got in zip(items, gots):
            if got[0] != "syntax":
                ctx.nontriv(s)
        validate_diagnoses(ctx, [c[0] for c in items], 3000 if quick else 20000)
        # the same string must give the same outcome after everything else has been parsed in the same process:
        # every input that involved a function call or was accepted, and every 20th of the rest, is parsed again
        first = getattr(ctx, "first_outcome", {})
        again = [t for i, (t, o) in enumerate(sorted(first.items())) if len(t) < 3000 and (o[0] in ("ok", "unknown", "argc") or i % 20 == 0)]
        ctx.notes["reparsed_at_end"] = len(again)
        many(ctx, [(t, None, "reparse") for t in again], lambda c: "reparse")
    finally:
        WORKER.stop()
    ctx.exhaustive = False


def replay(ctx, rep):
    d = rep["detail"]
    s = project.uncps(d["text_cps"]) if d.get("text_cps") else None
    if s is None:
        for nm, t in families("thorough"):
            if "family:" + nm.rsplit("-", 1)[0] == d["gen"] and t.startswith(d["text"][:150]):
                s = t
                break
    if s is None:
        raise tlc.MachineryError("cannot reconstruct replay input")
    try:
        got = one(ctx, s, d["gen"])
    finally:
        WORKER.stop()
    print("input (%d chars): %r" % (len(s), s[:200])); print("outcome:", got[:3])
