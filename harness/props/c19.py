"""C19 - whitespace layout and keyword case do not change the meaning of a filter.

TLC (MC_C19) renders each filter tree under every layout (7 whitespace choices x optional-whitespace on/off x
lower/UPPER/Capitalised keywords) and checks on the spec that its own lexer+parser read each layout as the expected
tree.  Here: (1) the real parser must return the expected AST (structure identical, literal spellings as written)
and every literal's Python value must equal the canonical spelling's; (2) every backend must translate the
re-laid-out text and the canonical text to the same result (see backends.equivalent()).
"""
import json

import project
import tlc

U = project.uncps


def literals(node, out=None):
    from odata_query import ast
    out = [] if out is None else out
    if isinstance(node, ast._Literal) and not isinstance(node, ast.List):
        out.append(node)
    for c in project.children(node):
        literals(c, out)
    return out


def pyvals(node):
    from odata_query import ast
    vals = []
    for l in literals(node):
        if isinstance(l, ast.Geography):
            vals.append(("geo", l.val))
        else:
            vals.append((type(l).__name__, repr(l.py_val)))
    return vals


def check_case(ctx, r, canon_cache, backends=None):
    s, c = U(r["text"]), U(r["canon"])
    ctx.traces += 1
    lay = r["lay"]
    key = {"kc": lay["kc"], "bws": lay["bws"], "ws": lay["ws"]}
    try:
        node = project.parse(s)
    except Exception as e:  # noqa
        ctx.violation(dict(key, what="rejected", exc=type(e).__name__), {"text": s, "canon": c, "exc": str(e)[:200], "case": r})
        return
    got = project.to_cps(project.proj(node))
    if got != r["tree"]:
        ctx.violation(dict(key, what="different-ast"), {"text": s, "canon": c, "expected": r["tree"], "got": got, "case": r})
        return
    if c not in canon_cache:
        cn = project.parse(c)
        canon_cache[c] = (cn, pyvals(cn))
    try:
        pv = pyvals(node)
    except Exception as e:  # noqa
        pv = "py_val raised %s" % type(e).__name__
    if pv != canon_cache[c][1]:
        ctx.violation(dict(key, what="different-py_val"), {"text": s, "canon": c, "py": str(pv)[:300], "canon_py": str(canon_cache[c][1])[:300], "case": r})
    if backends is not None and s != c:
        for name, why in backends.equivalent(c, s, (key, r)):
            ctx.violation(dict(key, what="backend-differs", backend=name), {"text": s, "canon": c, "why": why, "case": r})
    if s != c:
        ctx.nontriv(r["text"])
        if lay["kc"] == "c" and lay["bws"] and r["nops"] >= 1:
            ctx.sample({"text": s, "canonical": c}, cap=6)


def load_backends():
    try:
        import backends
    except ImportError:
        return None
    return backends


def run(ctx):
    ctx.rule = ("filters over a typed mini-schema with <= MaxOps and/or/not over 17 predicates (all keyword-bearing "
                "constructs) x 42 layouts (7 whitespace runs incl. tab/newline/CRLF/mixed x optional-whitespace on/off "
                "x lower/UPPER/Capitalised keywords); non-trivial = distinct text different from its canonical text")
    ctx.trusted = ["spec/Lex.tla (self-checked by SpecReadsLayout)", "harness/project.py"]
    # quick: <= 1 connective exhaustively, backends on every 7th layout.  thorough: the same exhaustively with the
    # backends on every layout, plus TLC-simulated deeper filters (<= 3 connectives; exhaustive would be ~10^8 cases)
    runs = [("exh", 1)] if ctx.tier == "quick" else [("exh", 1), ("sim", 3)]
    cache = {}
    be = load_backends()
    if be is not None:
        be = be.Backends(ctx)
    for mode, mo in runs:
        if mode == "exh":
            res = tlc.run("MC_C19", constants={"MaxOps": mo}, keep_lines=lambda r: r.get("k") == "case", timeout=7000, heap="12g")
        else:
            res = tlc.run("MC_C19", constants={"MaxOps": mo}, simulate=max(1, 40000 // 16), depth=12, seed=ctx.seed + 19,
                          keep_lines=lambda r: r.get("k") == "case", timeout=7000, heap="12g", check_count=False)
        ctx.add_tlc(res)
        if res.violation:
            ctx.violation({"kind": "model", "inv": res.violation}, {"tlc": res.raw_tail[-2000:]})
        seen = set()
        # backend equivalence is expensive: run it on a deterministic subsample of the layouts per canonical text
        for i, r in enumerate(res.records):
            if mode == "sim":
                k = json.dumps([r.get("text"), r.get("lay")], sort_keys=True)
                if k in seen:
                    continue
                seen.add(k)
            every = 7 if ctx.tier == "quick" else (1 if mode == "exh" else 3)
            use_be = be if (be is not None and i % every == 0) else None
            check_case(ctx, r, cache, use_be)
    if be is not None:
        for name, c, s, sql1, sql2, v, meta in be.finish():
            key, r = meta
            ctx.violation(dict(key, what="backend-differs", backend=name, verdict=v), {"text": s, "canon": c, "sql_canon": sql1, "sql": sql2, "case": r})
    ctx.exhaustive = ctx.tier == "quick"


def replay(ctx, rep):
    be = load_backends()
    b = be.Backends(ctx) if be else None
    check_case(ctx, rep["detail"]["case"], {}, b)
    if b is not None:
        for name, c, s, sql1, sql2, v, meta in b.finish():
            ctx.violation(dict(meta[0], what="backend-differs", backend=name, verdict=v), {"text": s, "canon": c, "sql_canon": sql1, "sql": sql2, "case": meta[1]})
