"""C09 - every SQL dialect emits well-formed SQL whose structure mirrors the filter.

TLC (MC_C09 = the typed generator of MC_Sem, all profiles incl. composed date/math/string functions) enumerates
filters and, for each, the leaves and the function-call skeletons the compositional oracle needs.  The three
dialects translate the filter, every leaf alone and every skeleton alone (and the filter again with a table
alias).  The emitted texts form a trace that TLC validates (Trace_SqlRead) with the SQL lexical automaton and the
SQL precedence reader: the output must be well-formed, and its tree - read with standard SQL precedence - must
equal the tree composed from the spec's operator table, the leaves' SQL and the skeletons' SQL (any missing or
misplaced parenthesis re-associates the left side); with an alias, exactly the field references are qualified.
"""
import json
import os

import project
import tlc

U = project.uncps

PLANS = {"quick": [("fns", 1), ("logic", 1), ("arith", 1), ("strings", 1), ("misc", 0), ("fns", 4, 200), ("arith", 5, 200), ("logic", 6, 400),
                   ("misc", 3, 400), ("strings", 3, 150)],
         # measured: arith 2 = 110 k filters, strings 2 = 114 k, logic 3 = 412 k, misc 2 > 1.4 M: the larger ones are sampled
         "thorough": [("fns", 1), ("logic", 2), ("arith", 2), ("strings", 1), ("misc", 1), ("math", 1), ("fns", 6, 4000), ("arith", 6, 3000),
                      ("strings", 5, 3000), ("misc", 4, 3000), ("logic", 8, 3000)]}


def dialects():
    from odata_query.sql import AstToAthenaSqlVisitor, AstToSqliteSqlVisitor, AstToSqlVisitor
    return [("sql", AstToSqlVisitor), ("sqlite", AstToSqliteSqlVisitor), ("athena", AstToAthenaSqlVisitor)]


class Translator:
    def __init__(self, V):
        self.V = V
        self.cache = {}
        self.visitors = {}          # one reused visitor instance per alias

    def sql(self, text, alias=None):
        k = (text, alias)
        if k not in self.cache:
            from odata_query import exceptions as ex
            try:
                if alias not in self.visitors:
                    self.visitors[alias] = self.V(alias)
                out = self.visitors[alias].visit(project.parse(text))
                self.cache[k] = ("ok", out) if isinstance(out, str) else ("nonstring", repr(out)[:60])
            except ex.ODataException as e:
                self.cache[k] = ("refused", type(e).__name__)
            except Exception as e:  # noqa
                self.cache[k] = ("crash", type(e).__name__ + ": " + str(e)[:80])
        return self.cache[k]


def fn_names(tree, out=None):
    out = set() if out is None else out
    if tree[0] == "Call":
        out.add(tree[1][2])
        for a in tree[2]:
            fn_names(a, out)
    elif tree[0] in ("Bin", "Cmp", "Bool"):
        fn_names(tree[2], out); fn_names(tree[3], out)
    elif tree[0] == "Un":
        fn_names(tree[2], out)
    return out


def run(ctx):
    ctx.rule = ("typed filters from MC_C09/MC_Sem (profiles fns, logic, arith, strings, misc; exhaustive up to the "
                "operator bound + simulated deeper ones) x 3 dialects x alias absent/present; non-trivial = distinct "
                "(filter, dialect) with >= 2 operator/function nodes that was translated and validated")
    ctx.trusted = ["spec/SqlLex.tla, spec/SqlRead.tla (standard SQL precedence)", "operator table in Trace_SqlRead (BinName)"]
    trans = [(n, Translator(V)) for n, V in dialects()]
    traces, info = [], {}
    tables = {"leaves": {n: {} for n, _ in trans}, "skels": {n: {} for n, _ in trans}}
    seen = set()
    quick = ctx.tier == "quick"

    def generate(plan):
        prof, mo = plan[0], plan[1]
        consts = {"MaxOps": mo, "Profile": '"%s"' % prof, "Backend": '"sqlite"'}
        w = 6 if quick else 16
        if len(plan) == 3:
            return tlc.run("MC_C09", constants=consts, simulate=max(1, plan[2] // w), depth=40, seed=ctx.seed + 9, workers=w,
                           keep_lines=lambda r: r.get("k") == "case", timeout=7000, heap="4g" if quick else "12g", check_count=False)
        return tlc.run("MC_C09", constants=consts, keep_lines=lambda r: r.get("k") == "case", timeout=7000,
                       heap="4g" if quick else "12g", workers=w)

    results = None
    if quick:       # independent generator runs: start them together
        from concurrent.futures import ThreadPoolExecutor
        with ThreadPoolExecutor(max_workers=4) as pool:
            results = list(pool.map(generate, PLANS[ctx.tier]))
    for pi, plan in enumerate(PLANS[ctx.tier]):
        res = results[pi] if results is not None else generate(plan)
        ctx.add_tlc(res)
        for r in res.records:
            kx = json.dumps(r["tree"])
            if kx in seen:
                continue
            seen.add(kx)
            text = U(r["text"])
            fns = sorted(fn_names(r["tree"]))
            light = (len(seen) % 8 != 0) and not fns          # operator-only filters: all on the base dialect,
            for dname, tr in trans:                              # every 8th on the two derived dialects
                if dname != "sql" and light:
                    continue
                if dname == "sql" and (set(fns) & {"floor", "ceiling"}):
                    continue            # KF-C09-sql-floor-ceiling: probed separately below
                ctx.evaluations += 1
                o = tr.sql(text)
                key = {"dialect": dname, "fns": fns}
                if o[0] == "refused":
                    continue            # a library refusal is C12's business
                if o[0] != "ok":
                    ctx.violation(dict(key, what=o[0]), {"text": text, "detail": o[1], "case": slim(r)})
                    continue
                bad = None
                for tree, tx in r["leaves"]:
                    lo = tr.sql(U(tx))
                    if lo[0] != "ok":
                        bad = ("leaf", U(tx), lo)
                        break
                    tables["leaves"][dname][json.dumps(tree)] = [tree, project.cps(lo[1])]
                for tree, tx in r["skels"]:
                    so = tr.sql(U(tx))
                    if so[0] != "ok":
                        bad = ("skeleton", U(tx), so)
                        break
                    tables["skels"][dname][json.dumps(tree)] = [tree, project.cps(so[1])]
                if bad:
                    ctx.violation(dict(key, what="part-not-translatable", part=bad[0]), {"text": text, "part": bad[1], "outcome": bad[2], "case": slim(r)})
                    continue
                ao = tr.sql(text, "T1x")
                cid = len(traces) + 1
                traces.append({"id": cid, "d": dname, "tree": r["tree"], "out": project.cps(o[1]), "nfields": r["nfields"],
                               "aliased": project.cps(ao[1]) if ao[0] == "ok" else [], "alias": project.cps("T1x")})
                info[cid] = (key, text, o[1], ao, r)
    # the standard dialect's floor/ceiling templates (pinned verbatim by the unit tests) are probed on their own
    from odata_query.sql import AstToSqlVisitor
    for probe, fn in (("floor(n) eq 1", "floor"), ("ceiling(n) eq 1", "ceiling")):
        tr = trans[0][1]
        o = tr.sql(probe)
        cid = len(traces) + 1
        leaf_n = ["Id", [], "n"]
        tables["leaves"]["sql"][json.dumps(leaf_n)] = [leaf_n, project.cps(tr.sql("n")[1])]
        one = ["Lit", "Integer", 1]
        tables["leaves"]["sql"][json.dumps(one)] = [one, project.cps("1")]
        sk = ["Call", ["Id", [], fn], [["Id", [], "zz1"]]]
        tables["skels"]["sql"][json.dumps(sk)] = [sk, project.cps(tr.sql("%s(zz1)" % fn)[1])]
        tree = ["Cmp", "eq", ["Call", ["Id", [], fn], [leaf_n]], one]
        traces.append({"id": cid, "d": "sql", "tree": tree, "out": project.cps(o[1]), "nfields": 1, "aliased": [], "alias": project.cps("T1x")})
        info[cid] = ({"dialect": "sql", "fns": [fn], "probe": "pinned-template"}, probe, o[1], ("none", ""),
                     {"tree": tree, "text": project.cps(probe), "nops": 2, "nfields": 1, "leaves": [], "skels": []})
    # decimal literals a binary double cannot carry (many significant digits, exponents beyond +-308): written down here
    # because Sem's 32-bit rationals cannot hold them; only the structure / literal-content clauses apply
    for spelling in ("0.1234567890123456789", "9007199254740993.0", "1e400", "1.5e-400", "123456789012345678901234567890.5", "+1.50", "1E3"):
        for dname, tr in trans:
            probe = "f gt %s" % spelling
            o = tr.sql(probe)
            if o[0] != "ok":
                continue
            leaf_f, lit = ["Id", [], "f"], ["Lit", "Float", spelling]
            tables["leaves"][dname][json.dumps(leaf_f)] = [leaf_f, project.cps(tr.sql("f")[1])]
            lo = tr.sql(spelling)
            tables["leaves"][dname][json.dumps(lit)] = [lit, project.cps(lo[1] if lo[0] == "ok" else "")]
            tree = ["Cmp", "gt", leaf_f, lit]
            cid = len(traces) + 1
            traces.append({"id": cid, "d": dname, "tree": tree, "out": project.cps(o[1]), "nfields": 1, "aliased": [], "alias": project.cps("T1x")})
            info[cid] = ({"dialect": dname, "fns": [], "probe": "decimal-spelling"}, probe, o[1], ("none", ""),
                         {"tree": tree, "text": project.cps(probe), "nops": 1, "nfields": 1, "leaves": [], "skels": []})
    validate(ctx, traces, info, tables)
    durations(ctx, trans)
    ctx.exhaustive = False


def durations(ctx, trans):
    """duration literals (every sign x component subset x value tuple of MC_C06): the INTERVAL arithmetic the dialects emit,
    read back by SqlRead, must carry exactly the literal's components and sign (Trace_Dur)"""
    res = tlc.run("MC_C06", constants={"IdAtomsMax": 1, "OnlyFam": '"Duration"'},
                  keep_lines=lambda r: r.get("k") == "case" and r["ctxt"] == "rhs", timeout=3000, check_count=False)
    ctx.add_tlc(res)
    traces, info = [], {}
    for r in res.records:
        text = "du" + U(r["text"])[1:]            # context "rhs" is  x eq <literal>
        for dname, tr in trans:
            o = tr.sql(text)
            ctx.evaluations += 1
            if o[0] != "ok":
                ctx.violation({"dialect": dname, "what": "duration-" + o[0]}, {"text": text, "detail": o[1]})
                continue
            cid = len(traces) + 1
            traces.append({"id": cid, "out": project.cps(o[1]), "mean": r["mean"]})
            info[cid] = (dname, text, o[1])
    if not traces:
        return
    path = os.path.join(tlc.BUILD, "trace_dur_%d.json" % os.getpid())
    with open(path, "w") as f:
        json.dump(traces, f)
    try:
        res = tlc.run("Trace_Dur", env={"TRACE_FILE": path}, check_count=False, keep_lines=lambda r: r.get("k") == "verdict", timeout=3000)
    finally:
        os.unlink(path)
    ctx.add_tlc(res)
    seen = {r["id"]: r["v"] for r in res.records}
    if len(seen) != len(traces):
        raise tlc.MachineryError("Trace_Dur: %d verdicts for %d traces" % (len(seen), len(traces)))
    for cid, v in seen.items():
        ctx.traces += 1
        if v != "ok":
            dname, text, sql = info[cid]
            ctx.violation({"dialect": dname, "what": "duration-" + v}, {"text": text, "sql": sql})
    ctx.notes["duration_literals_validated"] = len(traces)


def slim(r):
    return {"tree": r["tree"], "text": r["text"], "nops": r["nops"], "nfields": r["nfields"], "leaves": r["leaves"], "skels": r["skels"]}


def validate(ctx, traces, info, tables):
    os.makedirs(tlc.BUILD, exist_ok=True)
    CH = 30000
    tabs = {k: {d: list(v.values()) for d, v in tables[k].items()} for k in ("leaves", "skels")}
    for off in range(0, len(traces), CH):
        chunk = traces[off:off + CH]
        path = os.path.join(tlc.BUILD, "trace_sqlread_%d.json" % os.getpid())
        with open(path, "w") as f:
            json.dump({"cases": chunk, "leaves": tabs["leaves"], "skels": tabs["skels"]}, f)
        try:
            res = tlc.run("Trace_SqlRead", env={"TRACE_FILE": path}, check_count=False,
                          keep_lines=lambda r: r.get("k") == "verdict", timeout=7000, heap="12g")
        finally:
            os.unlink(path)
        ctx.add_tlc(res)
        seen = {r["id"]: r["v"] for r in res.records}
        if len(seen) != len(chunk):
            raise tlc.MachineryError("Trace_SqlRead: %d verdicts for %d traces\n%s" % (len(seen), len(chunk), res.raw_tail[-1500:]))
        for cid, v in seen.items():
            ctx.traces += 1
            key, text, sql, ao, r = info[cid]
            if v != "ok":
                ctx.violation(dict(key, what=v), {"text": text, "sql": sql, "aliased": ao[1] if ao[0] == "ok" else str(ao), "case": slim(r)})
            elif r["nops"] >= 2:
                ctx.nontriv([text, key["dialect"]])
                ctx.sample({"filter": text, "dialect": key["dialect"], "sql": sql}, cap=6)


def replay(ctx, rep):
    d = rep["detail"]
    r = d["case"]
    print("filter:", d["text"]); print("sql:", d.get("sql"))
    traces, info = [], {}
    tables = {"leaves": {n: {} for n, _ in dialects()}, "skels": {n: {} for n, _ in dialects()}}
    for dname, V in dialects():
        tr = Translator(V)
        text = U(r["text"])
        o = tr.sql(text)
        if o[0] != "ok":
            print(dname, o)
            continue
        for t, x in r["leaves"]:
            tables["leaves"][dname][json.dumps(t)] = [t, project.cps(tr.sql(U(x))[1])]
        for t, x in r["skels"]:
            tables["skels"][dname][json.dumps(t)] = [t, project.cps(tr.sql(U(x))[1])]
        ao = tr.sql(text, "T1x")
        cid = len(traces) + 1
        traces.append({"id": cid, "d": dname, "tree": r["tree"], "out": project.cps(o[1]), "nfields": r["nfields"],
                       "aliased": project.cps(ao[1]) if ao[0] == "ok" else [], "alias": project.cps("T1x")})
        info[cid] = ({"dialect": dname, "fns": sorted(fn_names(r["tree"]))}, text, o[1], ao, r)
    validate(ctx, traces, info, tables)
