"""C13 - AST -> OData text -> AST is the identity.

1. TLC (MC_C13) enumerates parser-image trees and checks on the spec itself that reading the text of the
   reference rendering with the spec lexer+parser gives the tree back.
2. Replay: each tree is built as real AST objects, rendered by AstToODataVisitor, re-parsed by the real parser;
   parse(render(t)) = t and render(parse(render(t))) = render(t).
3. Trace validation: the rendered text is *also* read by the spec's own lexer + parser machine under TLC
   (Trace_Text) and must yield t - so the printer is checked against the grammar's specification, not only
   against the parser it ships with.
"""
import json
import os

import project
import tlc


_VISITOR = []


def render(node):
    # one visitor instance for the whole run (visitors are reusable; state leaking between renderings must show)
    from odata_query.roundtrip import AstToODataVisitor
    if not _VISITOR:
        _VISITOR.append(AstToODataVisitor())
    return _VISITOR[0].visit(node)


def classify(tree):
    """site key for a failing tree: the kinds along ... (coarse: root kind + set of literal kinds + features)"""
    feats = set()

    def walk(t, parent=None, side=None):
        k = t[0]
        if k == "Lit":
            if t[1] == "String" and 39 in t[2]:
                feats.add("string-with-quote")
            if t[1] == "Geography":
                feats.add("geography")
        if k == "List" and len(t[1]) == 1:
            feats.add("singleton-list")
        if k == "Named":
            feats.add("named-param")
        if k in ("Bin", "Cmp", "Bool"):
            r = t[3]
            if r[0] in ("Bin", "Cmp", "Bool") and PREC[r[1]] == PREC[t[1]]:
                feats.add("right-nested-equal-precedence")
        for c in children(t):
            walk(c)
    walk(tree)
    return sorted(feats)


PREC = {"or": 1, "and": 2, "eq": 3, "ne": 3, "lt": 4, "le": 4, "gt": 4, "ge": 4, "add": 5, "sub": 5,
        "mul": 6, "div": 6, "mod": 6, "in": 8}


def children(t):
    k = t[0]
    if k in ("Id", "Lit", "None"):
        return []
    if k == "Attr":
        return [t[1]]
    if k == "List":
        return t[1]
    if k in ("Bin", "Cmp", "Bool"):
        return [t[2], t[3]]
    if k == "Un":
        return [t[2]]
    if k == "Call":
        return [t[1]] + t[2]
    if k in ("Named", "Lam"):
        return [t[1], t[2]]
    if k == "Coll":
        return [t[1]] + ([] if t[3] == ["None"] else [t[3]])
    return []


def check_trees(ctx, trees, label):
    cases = []
    by_id = {}
    for tree in trees:
        node = project.build(tree)
        ctx.evaluations += 1
        try:
            s = render(node)
            if not isinstance(s, str):
                raise TypeError("render returned %r" % (s,))
        except Exception as e:  # noqa
            ctx.violation({"kind": "render-raises", "exc": type(e).__name__, "features": classify(tree)},
                          {"tree": tree, "exc": type(e).__name__, "msg": str(e)[:200], "gen": label})
            continue
        got = project.outcome(s)
        ctx.traces += 1
        if got != ["ok", tree]:
            ctx.violation({"kind": "reparse-mismatch", "features": classify(tree)},
                          {"tree": tree, "text": s, "got": got, "gen": label})
        else:
            s2 = render(project.parse(s))
            if s2 != s:
                ctx.violation({"kind": "not-fixpoint", "features": classify(tree)},
                              {"tree": tree, "text": s, "text2": s2, "gen": label})
        cid = len(cases) + 1
        cases.append({"id": cid, "text": project.cps(s), "tree": tree})
        by_id[cid] = (tree, s)
        if len(children(tree)) >= 2:
            ctx.nontriv(tree)
            ctx.sample({"tree": tree, "rendered": s})
    reused_visitor_passes(ctx, trees, {json.dumps(t): s for t, s in by_id.values()}, label)
    # trace validation of the emitted texts against the spec's lexer + parser
    validate_texts(ctx, cases, by_id, label)


def reused_visitor_passes(ctx, trees, first_text, label):
    """A visitor instance may be reused, and what it printed earlier must not influence what it prints now: the
    same trees are rendered again by one fresh shared instance in generation order and by another in reverse
    order; any text that differs from the first rendering is itself subject to the property."""
    from odata_query.roundtrip import AstToODataVisitor
    for order, seq in (("forward", trees), ("reverse", list(reversed(trees)))):
        v = AstToODataVisitor()
        for tree in seq:
            try:
                s = v.visit(project.build(tree))
            except Exception as e:  # noqa
                ctx.violation({"kind": "render-raises", "exc": type(e).__name__, "features": classify(tree), "reused": order},
                              {"tree": tree, "exc": type(e).__name__, "msg": str(e)[:200], "gen": label})
                continue
            ctx.evaluations += 1
            if s == first_text.get(json.dumps(tree)):
                continue
            got = project.outcome(s) if isinstance(s, str) else ["nonstring"]
            ctx.traces += 1
            if got != ["ok", tree]:
                ctx.violation({"kind": "reparse-mismatch", "features": classify(tree), "reused": order},
                              {"tree": tree, "text": s, "got": got, "gen": label, "order": order})


def validate_texts(ctx, cases, by_id, label):
    if not cases:
        return
    os.makedirs(tlc.BUILD, exist_ok=True)
    path = os.path.join(tlc.BUILD, "trace_text_%s_%d.json" % (label, os.getpid()))
    with open(path, "w") as f:
        json.dump(cases, f)
    try:
        res = tlc.run("Trace_Text", env={"TRACE_FILE": path}, check_count=False,
                      keep_lines=lambda r: r.get("k") == "verdict")
    finally:
        os.unlink(path)
    ctx.add_tlc(res)
    seen = {}
    for r in res.records:
        seen[r["id"]] = r["v"]
    if len(seen) != len(cases):
        raise tlc.MachineryError("Trace_Text: %d verdicts for %d cases" % (len(seen), len(cases)))
    for cid, v in seen.items():
        ctx.traces += 1
        tree, s = by_id[cid]
        if v == "noverdict":
            ctx.notes["spec_noverdict"] = ctx.notes.get("spec_noverdict", 0) + 1
        elif v != "ok":
            ctx.violation({"kind": "spec-reads-differently", "verdict": v, "features": classify(tree)},
                          {"tree": tree, "text": s, "verdict": v, "gen": label})


def run(ctx):
    ctx.rule = ("parser-image trees from derivation machine MC_C13 (profiles 'atoms': every literal kind / path / "
                "call / lambda atom in every operand position; 'ops': every operator nesting); each rendered by "
                "AstToODataVisitor, re-parsed by the real parser AND by the spec lexer+parser under TLC; "
                "non-trivial = distinct tree with >= 2 children")
    ctx.trusted = ["spec/Lex.tla + spec/OData.tla (self-checked: TextRoundTrip theorems)", "harness/project.py"]
    keep = lambda r: r.get("k") == "case"
    # thorough: atoms with <= 3 nodes by simulation (exhaustive would be ~10^7), ops exhaustively with <= 2 plus simulation to 5
    plans = [("atoms", 1), ("ops", 2)] if ctx.tier == "quick" else [("atoms", 1), ("atoms", 2), ("ops", 2), ("ops", 5)]
    for prof, m in plans:
        if ctx.tier == "thorough" and (prof, m) in (("atoms", 2), ("ops", 5)):
            # too large to export exhaustively: simulate
            res = tlc.run("MC_C13", constants={"MaxOps": 3 if prof == "atoms" else 5, "Profile": '"%s"' % prof}, simulate=6000 // 16, depth=14,
                          seed=ctx.seed + 13, keep_lines=keep, check_count=False, timeout=3000)
        else:
            res = tlc.run("MC_C13", constants={"MaxOps": m, "Profile": '"%s"' % prof}, keep_lines=keep, timeout=3000)
        ctx.add_tlc(res)
        if res.violation:
            ctx.violation({"kind": "model", "inv": res.violation}, {"tlc": res.raw_tail[-2000:]})
        trees = []
        seen = set()
        for r in res.records:
            key = json.dumps(r["tree"])
            if key not in seen:
                seen.add(key)
                trees.append(r["tree"])
        check_trees(ctx, trees, "%s%d" % (prof, m))
    # numerals whose spelling is not canonical: the AST keeps the text ("+5", "007", "+1.5e+3"), the TLC generator's
    # integer literals are numbers and cannot carry it; these few trees are written down here, in three contexts
    n = lambda kind, v: ["Lit", kind, v]
    x = ["Id", [], "x"]
    odd = [n("Integer", "+5"), n("Integer", "007"), n("Integer", "-0"), n("Integer", "+0012"), n("Float", "+1.5"), n("Float", "+1e+5"),
           n("Float", "-0.50"), n("Float", "1E-03"), n("Float", "00.5")]
    extra = []
    for lit in odd:
        extra += [["Cmp", "eq", x, lit], ["Cmp", "in", x, ["List", [lit, n("Integer", 1)]]], ["Cmp", "gt", ["Bin", "add", x, lit], lit],
                  ["Call", ["Id", ["f"], "g"], [lit]]]
    check_trees_direct(ctx, extra, "spelled-numerals")
    ctx.exhaustive = ctx.tier == "quick"


def check_trees_direct(ctx, trees, label):
    """parse(render(t)) = t and the fixpoint, on the real code only (no spec reading of the text)"""
    for tree in trees:
        node = project.build(tree)
        ctx.evaluations += 1
        try:
            s = render(node)
        except Exception as e:  # noqa
            ctx.violation({"kind": "render-raises", "exc": type(e).__name__, "features": [label]}, {"tree": tree, "msg": str(e)[:200], "gen": label})
            continue
        got = project.outcome(s)
        ctx.traces += 1
        if got != ["ok", tree]:
            ctx.violation({"kind": "reparse-mismatch", "features": [label]}, {"tree": tree, "text": s, "got": got, "gen": label})
        elif render(project.parse(s)) != s:
            ctx.violation({"kind": "not-fixpoint", "features": [label]}, {"tree": tree, "text": s, "gen": label})


def replay(ctx, rep):
    d = rep["detail"]
    if d.get("gen") == "spelled-numerals":
        return check_trees_direct(ctx, [d["tree"]], "spelled-numerals")
    if "order" in d:      # depends on what the reused visitor rendered before: re-run the generation
        print("reused-visitor case (%s order); text: %s" % (d["order"], d.get("text")))
        return run(ctx)
    check_trees(ctx, [d["tree"]], "replay")
