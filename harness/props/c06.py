"""C06 - every literal and identifier is recognised as its own kind with its exact value.

TLC (MC_C06) generates spellings from structured descriptions per literal kind and identifiers from atom
sequences, embeds each in 9 expression contexts, and checks on the spec itself that the (independently written)
lexer specification reads every case as intended.  Here the real lexer+parser parse each text; the AST must equal
the expected tree (kind + exact `val`), and `py_val` of the literal must equal the exact meaning, converted by
`expected_py` below with exact rational arithmetic (trusted plumbing: numeral -> int, Fraction -> float).
"""
import datetime as dt
import uuid
from fractions import Fraction

import project
import tlc

U = project.uncps


def expected_py(mean):
    """exact meaning (from the spec) -> (python value, tolerance-or-None)"""
    k = mean[0]
    if k == "int":
        v = 0
        for c in mean[2]:
            v = v * 10 + (c - 48)
        return (-v if mean[1] == "-" else v), None
    if k == "dec":
        _, sign, i, f, esign, e = mean
        num = Fraction(int(U(i) + U(f)), 10 ** len(f))
        ex = int(U(e)) if e else 0
        num = num * (Fraction(10) ** (-ex if esign == "-" else ex))
        if sign == "-":
            num = -num
        try:
            x = float(num)           # correctly rounded conversion of the exact rational
        except OverflowError:
            x = float("-inf") if num < 0 else float("inf")
        if sign == "-" and num == 0:
            x = -0.0
        return x, None
    if k == "bool":
        return bool(mean[1]), None
    if k == "null":
        return None, None
    if k == "str":
        return U(mean[1]), None
    if k == "guid":
        return uuid.UUID(int=int(U(mean[1]).replace("-", ""), 16)), None
    if k == "date":
        return dt.date(mean[1], mean[2], mean[3]), None
    if k == "time":
        _, h, mi, s, f = mean
        us = Fraction(int(U(f)), 10 ** len(f)) * 1000000 if f else Fraction(0)
        return ("time", h, mi, s, us), "time"
    if k == "datetime":
        _, y, mo, d, h, mi, s, f, okind, osign, oh, om = mean
        us = Fraction(int(U(f)), 10 ** len(f)) * 1000000 if f else Fraction(0)
        tz = None if okind == "none" else dt.timezone(osign * dt.timedelta(hours=oh, minutes=om))
        return ("datetime", dt.datetime(y, mo, d, h, mi, s, 0, tzinfo=tz), us), "datetime"
    if k == "dur":
        _, sign, Y, Mo, D, H, Mi, S, f = mean
        z = lambda x: 0 if x < 0 else x
        days = Fraction(z(Y)) * Fraction(36525, 100) + Fraction(z(Mo)) * Fraction(3044, 100) + z(D)
        secs = days * 86400 + z(H) * 3600 + z(Mi) * 60 + z(S) + (Fraction(int(U(f)), 10 ** len(f)) if f else 0)
        if sign == "-":
            secs = -secs
        return ("dur", secs), "dur"
    if k == "geo":
        return U(mean[1]), "geo"
    raise ValueError(mean)


def py_matches(node, mean):
    exp, mode = expected_py(mean)
    if mode == "geo":
        return node.wkt() == exp, "wkt=%r" % (node.wkt(),)
    got = node.py_val
    if mode is None:
        ok = (got == exp and type(got) is type(exp))
        if isinstance(exp, float) and ok:
            import math
            ok = math.copysign(1, got) == math.copysign(1, exp)
        return ok, repr(got)
    if mode == "time":
        _, h, mi, s, us = exp
        ok = isinstance(got, dt.time) and (got.hour, got.minute, got.second) == (h, mi, s) and abs(got.microsecond - us) < 1
        return ok, repr(got)
    if mode == "datetime":
        _, base, us = exp
        if not isinstance(got, dt.datetime) or (got.tzinfo is None) != (base.tzinfo is None):
            return False, repr(got)
        ok = got.replace(microsecond=0) == base and got.utcoffset() == base.utcoffset() and abs(got.microsecond - us) < 1
        return ok, repr(got)
    if mode == "dur":
        _, secs = exp
        if not isinstance(got, dt.timedelta):
            return False, repr(got)
        exact = Fraction(got.days) * 86400 + got.seconds + Fraction(got.microseconds, 1000000)
        # timedelta itself rounds every float argument to microseconds; allow 2 us
        return abs(exact - secs) <= Fraction(2, 1000000), repr(got)
    raise ValueError(mode)


def check_case(ctx, r):
    s = U(r["text"])
    ctx.traces += 1
    key = {"kind": r["kind"], "ctxt": r["ctxt"]}
    try:
        node = project.parse(s)
    except Exception as e:  # noqa
        ctx.violation(dict(key, what="rejected", exc=type(e).__name__), {"text": s, "case": r, "exc": str(e)[:200]})
        return
    try:
        got = project.to_cps(project.proj(node))
    except project.Unprojectable as e:
        ctx.violation(dict(key, what="non-node"), {"text": s, "case": r, "exc": str(e)})
        return
    if got != r["tree"]:
        ctx.violation(dict(key, what="wrong-ast"), {"text": s, "expected": r["tree"], "got": got})
        return
    if r["kind"] != "Id":
        lit = node
        for i in r["path"]:
            lit = project.children(lit)[i - 1]
        try:
            ok, shown = py_matches(lit, r["mean"])
        except Exception as e:  # noqa
            ok, shown = False, "py_val raised %s: %s" % (type(e).__name__, e)
        if not ok:
            ctx.violation(dict(key, what="wrong-py_val"), {"text": s, "mean": r["mean"], "py_val": shown})
    if r["ctxt"] != "alone":
        ctx.nontriv([r["text"]])
        if r["ctxt"] == "arith" and len(ctx.samples) < 8 and (len(s) > 14):
            ctx.sample({"text": s, "kind": r["kind"], "meaning": r["mean"] if r["kind"] != "Id" else "identifier"}, cap=8)


def token_trace(text):
    """the real lexer's token stream, projected: [TYPE, v1, v2]"""
    from odata_query import ast
    from odata_query.grammar import ODataLexer
    out = []
    for tok in ODataLexer().tokenize(text):
        v = tok.value
        if isinstance(v, ast.Identifier):
            out.append([tok.type, [project.cps(x) for x in v.namespace], project.cps(v.name)])
        elif isinstance(v, ast.Null):
            out.append([tok.type, project.cps("null"), []])
        elif isinstance(v, ast._Literal):
            out.append([tok.type, project.cps(v.val), []])
        else:
            out.append([tok.type, [], []])
    return out


def validate_tokens(ctx, recs, batch=40000):
    # one TLC run per batch: JsonDeserialize of a very large trace file dominates otherwise
    for a in range(0, len(recs), batch):
        _validate_tokens(ctx, recs[a:a + batch])


def _validate_tokens(ctx, recs):
    import json
    import os
    traces, info = [], {}
    for r in recs:
        s = U(r["text"])
        try:
            toks = token_trace(s)
        except Exception:  # noqa  rejected inputs are reported by check_case
            continue
        cid = len(traces) + 1
        traces.append({"id": cid, "text": r["text"], "toks": toks})
        info[cid] = (s, r, toks)
    if not traces:
        return
    os.makedirs(tlc.BUILD, exist_ok=True)
    path = os.path.join(tlc.BUILD, "trace_tokens_%d.json" % os.getpid())
    with open(path, "w") as f:
        json.dump(traces, f)
    try:
        res = tlc.run("Trace_Tokens", env={"TRACE_FILE": path}, check_count=False,
                      keep_lines=lambda r: r.get("k") == "verdict", timeout=3000, heap="12g")
    finally:
        os.unlink(path)
    ctx.add_tlc(res)
    seen = {r["id"]: r for r in res.records}
    if len(seen) != len(traces):
        raise tlc.MachineryError("Trace_Tokens: %d verdicts for %d traces" % (len(seen), len(traces)))
    for cid, v in seen.items():
        ctx.traces += 1
        s, r, toks = info[cid]
        if v["v"] == "noverdict":
            ctx.notes["token_traces_noverdict"] = ctx.notes.get("token_traces_noverdict", 0) + 1
        elif v["v"] != "ok":
            ctx.violation({"kind": r["kind"], "ctxt": r["ctxt"], "what": "token-stream-" + v["v"]},
                          {"text": s, "at": v["at"], "tokens": [t[0] for t in toks], "case": r})
    ctx.notes["token_traces_validated"] = ctx.notes.get("token_traces_validated", 0) + len(traces)


def run(ctx):
    ctx.rule = ("spellings from structured descriptions per literal kind (boundary date/time fields, all 63 duration "
                "component subsets x sign x case, integers, decimals/exponents, strings over an adversarial alphabet, "
                "GUIDs, geography, booleans/null in all letter cases) and identifiers from sequences of <= N atoms "
                "{x 1 _ . null true false any all not in eq and or Q}, each in 9 contexts (identifiers also as the root of 2-, 3-, 4-segment paths and as collection owners); non-trivial = distinct "
                "(text) embedded in a non-trivial context")
    ctx.trusted = ["expected_py(): numeral->int, Fraction->float (correctly rounded), calendar constructors",
                   "spec/MC_C06.tla LitGen (cross-checked against spec/Lex.tla by invariant SpecReadsAsIntended)"]
    ctx.assumptions = ["time/datetime fractions beyond microseconds: py_val may truncate or round (tolerance < 1 us)",
                       "durations: tolerance 2 us because datetime.timedelta rounds its float arguments"]
    n = 3 if ctx.tier == "quick" else 4
    res = tlc.run("MC_C06", constants={"IdAtomsMax": n, "OnlyFam": '""'}, keep_lines=lambda r: r.get("k") == "case", timeout=7000, heap="12g")
    ctx.add_tlc(res)
    if res.violation:
        ctx.violation({"kind": "model", "inv": res.violation}, {"tlc": res.raw_tail[-2000:]})
    for r in res.records:
        check_case(ctx, r)
    # trace validation of the real token stream against Lex.tla (two contexts per spelling in the quick tier)
    # (thorough: every context for literals; identifiers - 10^5 spellings - in three contexts incl. a long path)
    sel = [r for r in res.records if (ctx.tier == "thorough" and r["kind"] != "Id") or r["ctxt"] in ("arith", "list2")
           or (ctx.tier == "thorough" and r["ctxt"] == "path3")]
    # arbitrary Unicode string contents (seeded): the harness only doubles the quotes; what the literal means is decided
    # by the spec's lexer when it reads the same text (Trace_Tokens), and the AST must carry exactly that content
    import random
    rng = random.Random(ctx.seed * 31 + 6)
    pools = [list(range(32, 127)), [39, 39, 39, 37, 95, 92, 34, 10, 9, 0], list(range(0xA0, 0x250)), [0x2019, 0xFF07, 0x1F4A5, 0x10FFFF, 0xE000, 0x200B, 0x85]]
    extra = []
    for i in range(3000 if ctx.tier == "quick" else 30000):
        content = [rng.choice(rng.choice(pools)) for _ in range(rng.randint(0, 12))]
        lit = "'" + "".join(chr(c) for c in content).replace("'", "''") + "'"
        text = rng.choice(["x eq %s", "%s ne x", "contains(x, %s)", "x in (%s, 'k')", "concat(%s, %s) eq x"]).replace("%s", lit)
        extra.append({"text": project.cps(text), "kind": "String", "ctxt": "random", "content": content})
        try:
            node = project.parse(text)
        except Exception as e:  # noqa
            ctx.violation({"kind": "String", "ctxt": "random", "what": "rejected", "exc": type(e).__name__}, {"text": text, "content": content})
            continue
        vals = [project.cps(x.val) for x in __import__("props.c19", fromlist=["literals"]).literals(node) if type(x).__name__ == "String"]
        ctx.traces += 1
        if any(v != content for v in vals if v != [107]) or not vals:
            ctx.violation({"kind": "String", "ctxt": "random", "what": "wrong-content"}, {"text": text, "content": content, "got": vals})
    validate_tokens(ctx, sel + extra)
    ctx.exhaustive = True


def replay(ctx, rep):
    d = rep["detail"]
    if "case" in d:
        check_case(ctx, d["case"])
    else:
        print("text:", d["text"])
        print(project.outcome(d["text"]))
        ctx.violation(rep["key"], d)
