"""C18 - type inference never reports a wrong type.

TLC (MC_C18) enumerates well-typed expressions from a typed derivation machine (holes carry the intended OData
type) and checks on the spec that the bottom-up Typing!TypeOf agrees with the generator.  Replay: infer_type on the
real AST must be None or the class named like the type; typecheck must accept the expression for every expected
set containing its type, and must raise ArgumentTypeException for a literal whose kind is outside the set; the SQL
visitors must never raise ArgumentTypeException on a well-typed filter.  Cases are visited in two orders (a wrong
answer cached from an earlier, similarly shaped expression shows whichever comes first).
"""
import project
import tlc

KINDS = ["Integer", "Float", "String", "Boolean", "Date", "Time", "DateTime", "Duration", "GUID", "Geography", "Null", "List"]


def check_case(ctx, r, full):
    from odata_query import ast, exceptions as ex, typing as ty
    node = project.build(r["tree"])
    want = r["type"]
    ctx.traces += 1
    if want == "IllTyped":
        if full:
            ill_typed(ctx, r, node)
        return
    try:
        got = ty.infer_type(node)
    except Exception as e:  # noqa
        ctx.violation({"what": "infer-raised", "type": want, "exc": type(e).__name__}, {"case": r, "exc": str(e)[:200]})
        return
    gname = None if got is None else getattr(got, "__name__", repr(got))
    if gname is not None and gname != want:
        ctx.violation({"what": "wrong-type", "expected": want, "inferred": gname, "root": r["tree"][0],
                       "fn": r["tree"][1][2] if r["tree"][0] == "Call" else ""}, {"case": r, "inferred": gname})
        return
    if not full:
        return
    cls = getattr(ast, want)
    for expected in (cls, (cls,), (ast.Identifier, cls), (cls, ast.Null)):
        try:
            ty.typecheck(node, expected, "arg")
        except ex.ArgumentTypeException:
            ctx.violation({"what": "typecheck-rejects-well-typed", "type": want}, {"case": r, "expected_set": str(expected)})
            break
    if r["tree"][0] == "Lit" or r["tree"][0] == "List":
        for other in KINDS:
            if other == want:
                continue
            ocls = getattr(ast, other)
            for expected in (ocls, (ocls, ast.Identifier)):
                try:
                    ty.typecheck(node, expected, "arg")
                    ctx.violation({"what": "typecheck-accepts-wrong-literal", "type": want, "allowed": other}, {"case": r})
                except ex.ArgumentTypeException:
                    pass
    if want == "Boolean":
        from odata_query.sql import AstToAthenaSqlVisitor, AstToSqliteSqlVisitor, AstToSqlVisitor
        for nm, V in (("sql", AstToSqlVisitor), ("sqlite", AstToSqliteSqlVisitor), ("athena", AstToAthenaSqlVisitor)):
            try:
                V().visit(node)
            except ex.ArgumentTypeException as e:
                ctx.violation({"what": "backend-rejects-well-typed", "backend": nm, "fn": e.function_name}, {"case": r, "exc": str(e)})
            except Exception:  # noqa  other refusals are C12's business
                pass
        for nm, mk in ORM_VISITORS:
            try:
                mk().visit(node)
            except ex.ArgumentTypeException as e:
                ctx.violation({"what": "backend-rejects-well-typed", "backend": nm, "fn": e.function_name}, {"case": r, "exc": str(e)})
            except Exception:  # noqa
                pass
    if r["nops"] >= 2:
        ctx.nontriv(r["tree"])
        if gname is not None:
            ctx.sample({"tree": r["tree"], "type": want, "inferred": gname}, cap=5)


def ill_typed(ctx, r, node):
    """a call that is ill-typed under every overload (Typing!MustReject): every SQL dialect's type check refuses it"""
    from odata_query import ast, exceptions as ex
    from odata_query.sql import AstToAthenaSqlVisitor, AstToSqliteSqlVisitor, AstToSqlVisitor
    fn = r["tree"][1][2]
    wrapped = node if fn in ("contains", "startswith", "endswith") else ast.Compare(ast.Eq(), node, ast.String("a") if fn == "substring" else ast.Integer("1"))
    for nm, V in (("sql", AstToSqlVisitor), ("sqlite", AstToSqliteSqlVisitor), ("athena", AstToAthenaSqlVisitor)):
        if nm in r.get("exempt", []):
            continue
        ctx.traces += 1
        try:
            out = V().visit(wrapped)
        except ex.ODataException:
            continue
        except Exception as e:  # noqa
            ctx.violation({"what": "ill-typed-call-crashes", "backend": nm, "fn": fn, "exc": type(e).__name__}, {"case": r, "exc": str(e)[:200]})
            continue
        ctx.violation({"what": "backend-accepts-ill-typed", "backend": nm, "fn": fn}, {"case": r, "output": str(out)[:300]})
    for nm, mk in ORM_VISITORS:
        if nm in r.get("exempt", []):
            continue
        ctx.traces += 1
        try:
            out = mk().visit(wrapped)
        except ex.ODataException:
            continue
        except NotImplementedError as e:
            if nm == "sa-core":          # the documented refusal of paths by the Core visitor
                continue
            ctx.violation({"what": "ill-typed-call-crashes", "backend": nm, "fn": fn, "exc": "NotImplementedError"}, {"case": r, "exc": str(e)[:200]})
            continue
        except Exception as e:  # noqa
            ctx.violation({"what": "ill-typed-call-crashes", "backend": nm, "fn": fn, "exc": type(e).__name__}, {"case": r, "exc": str(e)[:200]})
            continue
        ctx.violation({"what": "backend-accepts-ill-typed", "backend": nm, "fn": fn}, {"case": r, "output": str(out)[:300]})
    ctx.nontriv(r["tree"])


ORM_VISITORS = []


def run(ctx):
    try:
        import backends
        ORM_VISITORS[:] = backends.orm_visitors()
    except ImportError:
        pass
    ctx.rule = ("well-typed expressions from the typed derivation machine MC_C18 (9 root types, every built-in "
                "function with arguments of every admissible type, arithmetic, comparisons, lambdas) with <= MaxOps "
                "function/operator nodes; non-trivial = distinct expression with >= 2 such nodes")
    ctx.trusted = ["spec/Typing.tla ReturnType table (OData 4.01 5.1.1.5-5.1.1.13), cross-checked against the generator"]
    res = tlc.run("MC_C18", constants={"MaxOps": 3 if ctx.tier == "quick" else 4},
                  keep_lines=lambda r: r.get("k") == "case", timeout=7000, heap="12g")
    ctx.add_tlc(res)
    if res.violation:
        ctx.violation({"kind": "model", "inv": res.violation}, {"tlc": res.raw_tail[-2000:]})
    recs = res.records
    for r in recs:
        check_case(ctx, r, True)
    for r in reversed(recs):
        check_case(ctx, r, False)
    # the null literal (not a type of the typed generator): its inferred type is Null or unknown, and it is not accepted
    # where a specific other kind is required
    check_case(ctx, {"tree": ["Lit", "Null", "null"], "type": "Null", "nops": 0}, True)
    ctx.exhaustive = True


def replay(ctx, rep):
    check_case(ctx, rep["detail"]["case"], True)
