"""C11 - function calls are accepted iff name and argument count match the OData table.

TLC (MC_C11) enumerates every (name, argc 0..5, argument style, context) and computes the expected outcome from
the spec's Functions table through the reference parser machine (and cross-checks machine vs table).  Each text is
parsed by the real parser; the outcome incl. the exception payload (name, min, max, given) must be identical.
"""
import project
import tlc


def run(ctx):
    ctx.rule = ("all (function name in built-ins + geo + near-misses + custom namespaces) x argc 0..5 x argument "
                "style {literals, nested calls, lists, paths, mixed expressions, named parameters} x context "
                "{alone, comparison operand, call argument, list element, lambda body}; non-trivial = distinct case "
                "with an error outcome or >= 2 arguments")
    ctx.trusted = ["spec/OData.tla Functions table (transcribed from the OData standard, 33 entries)"]
    res = tlc.run("MC_C11", workers=16)
    ctx.add_tlc(res)
    if res.violation:
        ctx.violation({"kind": "model", "inv": res.violation}, {"tlc": res.raw_tail[-2000:]})
    for r in res.records:
        check_case(ctx, r)
    ctx.exhaustive = True


def check_case(ctx, r):
    s = project.text(r["text"])
    got = project.outcome(s)
    ctx.traces += 1
    exp = r["expected"]
    key = {"kind": "call-outcome", "style": r["style"], "n": r["n"], "got": got[0], "expected": exp[0]}
    if got != exp:
        if got[0] == "foreign":
            key["exc"] = got[1]
        ctx.violation(key, {"text": s, "expected": exp, "got": got, "case": {k: r[k] for k in ("fn", "n", "style", "ctxt")}})
    if "bws" in r:          # the same call written with optional whitespace wherever the grammar allows it
        s2 = project.text(r["bws"])
        got2 = project.outcome(s2)
        ctx.traces += 1
        if got2 != exp:
            ctx.violation(dict(key, got=got2[0], layout="bws"), {"text": s2, "expected": exp, "got": got2,
                                                                "case": {k: r[k] for k in ("fn", "n", "style", "ctxt")}})
    if exp[0] != "ok" or r["n"] >= 2:
        ctx.nontriv([r["fn"], r["n"], r["style"], r["ctxt"]])
        if r["ctxt"] == "cmp":
            ctx.sample({"text": s, "expected": exp if exp[0] != "ok" else "ok(call tree)"}, cap=8)


def replay(ctx, rep):
    d = rep["detail"]
    got = project.outcome(d["text"])
    ctx.traces += 1
    print("text:", d["text"]); print("expected:", d["expected"]); print("got:", got)
    if got != d["expected"]:
        ctx.violation(rep["key"], d)
