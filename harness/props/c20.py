"""C20 - lexer and parser instances are reusable and deterministic.

TLC (MC_C20, the session machine) enumerates histories: sequences of calls binding a lexer and a parser instance
to one of 16 probe texts (valid, syntax errors at start/middle/end, tokenising errors, unknown function, wrong
arity, named parameters, long valid), sequentially on shared instances and - for calls on disjoint instances -
interleaved at token granularity under every schedule with a bounded number of context switches.  Each behaviour
is replayed on real ODataLexer/ODataParser instances (interleavings with one thread per call and an explicit
hand-off at every token pull).  Oracle: every call's outcome (full AST / exception payload) and the sequence of
token types it pulled equal those of a fresh lexer+parser on that text, which must in turn equal the spec's
outcome for the probe.  Also: AliasRewriter built with the used ("dirty") instances equals one built with fresh
ones; outcome digests over a corpus are identical across PYTHONHASHSEED values and import orders (fresh
subprocesses), before and after importing every backend.
"""
import json
import os
import subprocess
import sys
import threading

import project
import tlc

U = project.uncps
HERE = os.path.dirname(os.path.dirname(os.path.abspath(__file__)))


class Tap:
    """Wraps the lexer's token generator; records token types; optional gate called before every pull."""

    def __init__(self, gen, gate=None):
        self.gen = gen
        self.types = []
        self.gate = gate

    def __iter__(self):
        return self

    def __next__(self):
        if self.gate is not None:
            self.gate()
        try:
            tok = next(self.gen)
        except StopIteration:
            self.types.append("$end")
            raise
        self.types.append(tok.type)
        return tok


def run_call(lexer, parser, text, gate=None):
    from odata_query import ast, exceptions as ex
    tap = Tap(lexer.tokenize(text), gate)
    try:
        r = parser.parse(tap)
        if not isinstance(r, ast._Node):
            out = ["nonnode", repr(r)[:100]]
        else:
            out = ["ok", project.proj(r)]
    except ex.ArgumentCountException as e:
        out = ["argc", e.function_name, e.exp_min_args, e.exp_max_args, e.n_args_given, _payload(e)]
    except ex.UnknownFunctionException as e:
        out = ["unknown", e.function_name, _payload(e)]
    except ex.ParsingException as e:
        out = ["syntax", getattr(e.token, "type", None), getattr(e.token, "index", None), bool(e.eof), _payload(e)]
    except ex.TokenizingException as e:
        out = ["token", getattr(e.token, "index", None), _payload(e)]
    except Exception as e:  # noqa
        out = ["foreign", type(e).__name__, str(e)[:120]]
    return out, tap.types


def _payload(e):
    """everything else an error reports (message, further attributes): part of the outcome a caller can observe, so it
    has to be as history-independent as the rest"""
    return [str(e)[:300], sorted((k, repr(v)[:120]) for k, v in vars(e).items() if k != "token")]


def failed_rewriter(lexer, parser):
    """a rewriter construction that fails half-way (one broken alias definition) on the caller's instances"""
    from odata_query.rewrite import AliasRewriter
    try:
        AliasRewriter({"ok": "author/name", "bad": "author/ eq", "late": "x/y"}, lexer, parser)
        return "constructed"
    except Exception as e:  # noqa
        return type(e).__name__


def fresh_instances():
    from odata_query.grammar import ODataLexer, ODataParser
    return {"L1": ODataLexer(), "L2": ODataLexer(), "P1": ODataParser(), "P2": ODataParser()}


def spec_matches(spec, got):
    """spec outcome (code-point mode, from TLC) vs real outcome of a fresh run."""
    if spec[0] == "ok":
        return got[0] == "ok" and project.to_cps(got[1]) == spec[1]
    if spec[0] == "unknown":
        return got[:2] == ["unknown", U(spec[1])]
    if spec[0] == "argc":
        return got[:5] == ["argc", U(spec[1]), spec[2], spec[3], spec[4]]
    if spec[0] in ("syntax", "token"):
        # lexing is lazy: a text with both a lexical and a syntactic error may report either
        return got[0] in ("syntax", "token")
    return True


def interleaved(inst, calls, sched, texts):
    """Replay a schedule [(call_index(1-based), pulls), ...] with one thread per call and a hand-off per pull."""
    n = len(calls)
    go = [threading.Semaphore(0) for _ in range(n)]
    back = threading.Semaphore(0)
    state = {"free": [False] * n, "done": [False] * n, "res": [None] * n}

    def gate_for(i):
        def gate():
            if state["free"][i]:
                return
            back.release()            # announce: about to pull (previous grant consumed)
            go[i].acquire()
        return gate

    def body(i):
        go[i].acquire()               # wait for the first grant
        c = calls[i]
        state["res"][i] = run_call(inst[c["lex"]], inst[c["par"]], texts[c["probe"] - 1], gate_for(i))
        state["done"][i] = True
        back.release()

    threads = [threading.Thread(target=body, args=(i,), daemon=True) for i in range(n)]
    started = [False] * n
    for (ci, pulls) in sched:
        i = ci - 1
        if state["done"][i]:
            continue
        if not started[i]:
            started[i] = True
            threads[i].start()
            go[i].release()           # let it run up to its first pull request
            if not back.acquire(timeout=30):
                raise tlc.MachineryError("interleaving hand-off timed out")
        for _ in range(pulls):
            if state["done"][i]:
                break
            go[i].release()           # grant one pull; thread runs until next pull request or completion
            if not back.acquire(timeout=30):
                raise tlc.MachineryError("interleaving hand-off timed out")
    for i in range(n):                # let everything finish, in call order
        if started[i] and not state["done"][i]:
            state["free"][i] = True
            go[i].release()
            threads[i].join(30)
        elif not started[i]:
            state["free"][i] = True
            threads[i].start()
            go[i].release()
            threads[i].join(30)
    for i in range(n):
        if state["res"][i] is None:
            raise tlc.MachineryError("interleaved call did not finish")
    return state["res"]


ALIASES = {"k1": "a/b", "k2": "substring(name, 1)", "k3": "x.y"}


def rewriter_proj(lexer, parser):
    from odata_query.rewrite import AliasRewriter
    try:
        rw = AliasRewriter(dict(ALIASES), lexer, parser)
        return sorted((json.dumps(project.proj(k)), json.dumps(project.proj(v))) for k, v in rw.replacements.items())
    except Exception as e:  # noqa
        return ["raised", type(e).__name__]


def run(ctx):
    ctx.rule = ("histories from the session machine MC_C20: sequential call sequences (<= MaxCalls) over 3 instance "
                "pairings x 34 probes, and token-granular interleavings of 2 calls on disjoint instances with a bounded "
                "number of context switches; non-trivial = distinct history with >= 2 calls")
    ctx.trusted = ["thread hand-off harness (deterministic: exactly one runnable thread at any time)"]
    quick = ctx.tier == "quick"
    pr = tlc.run("MC_C20_probes", workers=1, check_count=False)
    ctx.add_tlc(pr)
    probes = pr.records[0]
    texts = [U(t) for t in probes["texts"]]
    fresh = []
    for p, s in enumerate(texts):
        i = fresh_instances()
        out, types = run_call(i["L1"], i["P1"], s)
        fresh.append((out, types))
        ctx.traces += 1
        if not spec_matches(probes["outcomes"][p], out):
            ctx.violation({"kind": "fresh-outcome-differs-from-spec", "probe": p + 1},
                          {"text": s, "spec": probes["outcomes"][p][:1], "got": out[:2]})
    base_rw = rewriter_proj(*[fresh_instances()[k] for k in ("L1", "P1")])

    def judge(history, results, how):
        for ci, (c, (out, types)) in enumerate(zip(history, results)):
            fo, ft = fresh[c["probe"] - 1]
            ctx.traces += 1
            if out != fo or types != ft:
                what = "outcome" if out != fo else "token-stream"
                ctx.violation({"kind": "history-dependent-" + what, "how": how, "probe": c["probe"], "position": ci + 1,
                               "after": [h["probe"] for h in history[:ci]] if how != "interleaved" else "interleaved"},
                              {"history": history, "call": ci + 1, "text": texts[c["probe"] - 1],
                               "got": str(out)[:300], "fresh": str(fo)[:300], "types": types[:40], "fresh_types": ft[:40]})

    # 1. sequential histories
    res = tlc.run("MC_C20", constants={"MaxCalls": 2 if quick else 3, "Sequential": "TRUE", "MaxInFlight": 1, "MaxSwitches": 0},
                  keep_lines=lambda r: r.get("k") == "case", timeout=7000)
    ctx.add_tlc(res)
    if res.violation:
        ctx.violation({"kind": "model", "inv": res.violation}, {"tlc": res.raw_tail[-2000:]})
    for r in res.records:
        inst = fresh_instances()
        results = [run_call(inst[c["lex"]], inst[c["par"]], texts[c["probe"] - 1]) for c in r["calls"]]
        judge(r["calls"], results, "sequential")
        # AliasRewriter built with the used instances
        c = r["calls"][-1]
        rw = rewriter_proj(inst[c["lex"]], inst[c["par"]])
        if rw != base_rw:
            ctx.violation({"kind": "rewriter-depends-on-instance-history", "after": [h["probe"] for h in r["calls"]]},
                          {"history": r["calls"], "got": str(rw)[:300], "fresh": str(base_rw)[:300]})
        if len(r["calls"]) >= 2:
            ctx.nontriv(r["calls"])
            ctx.sample({"sequential": [[c["lex"], c["par"], texts[c["probe"] - 1]] for c in r["calls"]]}, cap=3)
        # the same history after another component failed half-way on these instances (a rewriter with a broken alias)
        inst = fresh_instances()
        c0 = r["calls"][0]
        ctx.notes.setdefault("failed_rewriter_outcomes", {})
        fr = failed_rewriter(inst[c0["lex"]], inst[c0["par"]])
        ctx.notes["failed_rewriter_outcomes"][fr] = ctx.notes["failed_rewriter_outcomes"].get(fr, 0) + 1
        results = [run_call(inst[c["lex"]], inst[c["par"]], texts[c["probe"] - 1]) for c in r["calls"]]
        judge(r["calls"], results, "after-failed-rewriter")
    # 2. interleaved schedules on disjoint instances
    res = tlc.run("MC_C20", constants={"MaxCalls": 2, "Sequential": "FALSE", "MaxInFlight": 2,
                                       "MaxSwitches": 2 if quick else 3,
                                       "ProbeSet": "{1, 3, 5, 7, 9, 12, 20}" if quick else "{1, 3, 4, 5, 7, 9, 10, 12, 15, 20, 22}"},
                  keep_lines=lambda r: r.get("k") == "case" and len(r["calls"]) == 2 and len(r["sched"]) > 2,
                  timeout=7000, check_count=False, heap="12g")
    ctx.add_tlc(res)
    if res.violation:
        ctx.violation({"kind": "model", "inv": res.violation}, {"tlc": res.raw_tail[-2000:]})
    recs = res.records
    if quick and len(recs) > 6000:
        import random
        recs = random.Random(ctx.seed + 20).sample(recs, 6000)
    ctx.notes["interleaved_schedules_replayed"] = len(recs)
    for r in recs:
        inst = fresh_instances()
        results = interleaved(inst, r["calls"], [tuple(x) for x in r["sched"]], texts)
        judge(r["calls"], results, "interleaved")
        ctx.nontriv([r["calls"], r["sched"]])
        ctx.sample({"interleaved": [[c["lex"], c["par"], texts[c["probe"] - 1]] for c in r["calls"]], "schedule": r["sched"]}, cap=5)
    # 3. hash seeds x import orders, in fresh subprocesses
    corpus = texts + ["concat(a, 'b', 'c') eq 'x'", "concat(a) eq 'x'", "length(a, b)", "geo.distance(a)", "a in (1, 2)",
                      "f.g(a=1, b=2, c=3)", "not a", "- a", "a/b/c/any(x: x/y eq null)", "duration'P1D' eq d", "nullable", "x:",
                      # results that a set or dict inside the library would re-order under another hash seed
                      "status in ('open', 'closed', 'on hold', 'open')", "id in (3, 1, 2, 3, 1)", "f.g(zeta=1, alpha=2, mid=3, alpha2=4)",
                      "x in ('b', 'a', 'c', 'b', 'd', 'e', 'a')", "g in (01234567-89ab-cdef-0123-456789abcdef, 11234567-89ab-cdef-0123-456789abcdef, 01234567-89ab-cdef-0123-456789abcdef)",
                      "d in (2020-01-02, 2020-01-01, 2020-01-02)", "concat(concat(b, a), concat(a, b)) eq concat(a, a)",
                      "a eq 1 or b eq 2 or a eq 1 or c eq 3 or b eq 2", "hassubset((3, 1, 2, 3), (1, 1))", "n in (1.5, 1.0, 1.5, 2e0)",
                      # several range variables in scope at once, sibling lambdas re-using a name, a re-bound name
                      "items/any(x: x/tags/any(t: t eq 'a') and x/tags/any(t: t eq 'b'))",
                      "a/any(x: x/b/any(y: y/c/all(z: z eq 1)) or x/d/any(y: y eq 2) or x/e/all(z: z eq 3))",
                      "a/any(x: x/b/any(x: x eq 1) and x/c eq 2)", "a/any(p: p/b/all(q: q/c/any(r: r eq p/d) and q/e/any(r: r eq 1)))"]
    # every built-in with one argument too many / too few: importing a back-end must not change the function table
    for fn, n in (("round", 1), ("floor", 1), ("ceiling", 1), ("substring", 3), ("trim", 1), ("concat", 2), ("contains", 2), ("year", 1),
                  ("indexof", 2), ("tolower", 1), ("toupper", 1), ("now", 0), ("date", 1), ("time", 1), ("second", 1), ("startswith", 2),
                  ("endswith", 2), ("hassubset", 2), ("geo.distance", 2), ("geo.length", 1), ("matchesPattern", 2), ("totalseconds", 1)):
        corpus.append("%s(%s) eq 1" % (fn, ", ".join(["a"] * (n + 1))))
        if n > 0:
            corpus.append("%s(%s) eq 1" % (fn, ", ".join(["a"] * (n - 1))))
    orders = [([], ["odata_query.sqlalchemy", "odata_query.django", "odata_query.sql", "odata_query.roundtrip", "odata_query.rewrite"]),
              (["odata_query.sqlalchemy"], ["odata_query.sql"]),
              (["django-setup", "odata_query.django"], ["odata_query.sqlalchemy"]),
              (["odata_query.sql", "odata_query.roundtrip", "odata_query.rewrite", "odata_query.typing", "odata_query.utils"], [])]
    seeds = ["0", "1", "2", str(ctx.seed + 3)]
    os.makedirs(tlc.BUILD, exist_ok=True)
    ref = None
    for oi, (before, after) in enumerate(orders):
        for sd in (seeds if not quick else seeds[:2] if oi else seeds):
            path = os.path.join(tlc.BUILD, "c20_corpus_%d.json" % os.getpid())
            json.dump({"imports_before": before, "imports_after": after, "corpus": corpus}, open(path, "w"))
            env = dict(os.environ)
            env["PYTHONHASHSEED"] = sd
            p = subprocess.run([sys.executable, "-B", os.path.join(HERE, "session_digest.py"), path],
                               stdout=subprocess.PIPE, stderr=subprocess.PIPE, env=env, text=True, timeout=300)
            os.unlink(path)
            if p.returncode != 0:
                raise tlc.MachineryError("session_digest failed: " + p.stderr[-800:])
            d = json.loads(p.stdout.strip().splitlines()[-1])
            ctx.traces += 2 * len(corpus)
            if d["import_errors"]:
                ctx.notes.setdefault("import_errors", []).extend(d["import_errors"])
            for phase in ("before", "after"):
                if ref is None:
                    ref = d[phase]
                if d[phase] != ref:
                    bad = [corpus[i] for i in range(len(corpus)) if d[phase][i] != ref[i]]
                    ctx.violation({"kind": "outcome-depends-on-configuration", "imports": before if phase == "before" else before + after,
                                   "example": bad[0] if bad else ""},
                                  {"hashseed": sd, "imports_before": before, "imports_after": after, "phase": phase, "texts": bad[:5]})
    ctx.exhaustive = True


def replay(ctx, rep):
    print(json.dumps(rep["detail"], indent=1)[:3000])
    run(ctx)
