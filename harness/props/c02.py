"""C02 - see semcommon.py: TLC-generated typed filters with their Sem!Eval meaning, replayed through the django backend."""
import semcommon


def run(ctx):
    semcommon.run(ctx, "django")


def replay(ctx, rep):
    semcommon.replay(ctx, rep, "django")
