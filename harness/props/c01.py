"""C01 - the SQLite WHERE clause selects exactly the rows the OData filter denotes.

TLC (MC_Sem) enumerates typed scalar filters per profile and computes, with the TLA+ evaluator Sem!Eval (Kleene
logic, NULL propagation), the set of valuations of the referenced columns for which the filter is TRUE.  Each
filter is rendered minimally and fully parenthesised, parsed by the real parser, translated by
AstToSqliteSqlVisitor and executed on a real in-memory SQLite table holding the cross product of the value domain
for the referenced columns; the selected ids must be exactly the expected ones.
"""
import semcommon


def run(ctx):
    semcommon.run(ctx, "sqlite")


def replay(ctx, rep):
    semcommon.replay(ctx, rep, "sqlite")
