"""C04 - navigation paths and any/all lambdas mean what OData says on the ORM backends.

TLC (MC_C04) enumerates relational filters (to-one paths of depth 1..3 through nullable keys, any()/any(x: p)/
all(x: p) incl. nesting and collections reached through to-one paths, and/or/not) and computes with Rel!EvalR the
parents selected on database instances that are shape-complete for Post.comments (every multiset of 0..3 comments
over k in {1,2,3}), with NULL foreign keys, a two-hop path and a many-to-many relation with shared children.  The
same instance is loaded into Django and SQLAlchemy (in-memory SQLite); both shorthands must return exactly the
expected parents (hence agree with each other).
"""
import json
import os

import backends
import project
import tlc

U = project.uncps


def feats(tree):
    out = set()

    def walk(t):
        k = t[0]
        if k == "Coll":
            out.add(t[2] + ("()" if t[3] == ["None"] else ""))
            walk(t[1])
            if t[3] != ["None"]:
                walk(t[3][2])
        elif k == "Attr":
            depth = 0
            x = t
            while x[0] == "Attr":
                depth += 1
                x = x[1]
            out.add("path%d" % depth)
        elif k in ("Bin", "Cmp", "Bool"):
            if k == "Bool":
                out.add(t[1])
            if k == "Cmp" and (t[3][0] == "Lit" and t[3][1] == "Null"):
                out.add("null")
            walk(t[2]); walk(t[3])
        elif k == "Un":
            out.add(t[1]); walk(t[2])
    walk(tree)
    return sorted(out)


# plumbing for known-finding attribution only (mirrors Rel!ToOne / Rel!ToMany): does one query level of the filter
# reach the same table through two different to-one relationship paths?
TOONE = {"Org": {"lead": "Author"}, "Author": {"org": "Org", "info": "AuthorInfo", "home": "Org", "boss": "Author"}, "Post": {"author": "Author", "info": "PostInfo"},
         "Comment": {"post": "Post"}}
TOMANY = {"Org": {"authors": "Author"}, "Author": {"posts": "Post", "edited": "Post"}, "Post": {"comments": "Comment", "authors": "Author"}}


def same_table_twice(tree, root):
    found = []

    def segs(p):
        out = []
        while p[0] == "Attr":
            out.append(p[2]); p = p[1]
        out.append(p[2])
        return out[::-1]

    def level(t, env, reached):
        k = t[0]
        if k in ("Id", "Attr"):
            ss = segs(t)
            model, start = (env[ss[0]], 1) if ss[0] in env else (env[""], 0)
            base = (ss[0],) if start else ()
            for i in range(start, len(ss)):
                if ss[i] in TOONE.get(model, {}):
                    model = TOONE[model][ss[i]]
                    reached.setdefault(model, set()).add(base + tuple(ss[start:i + 1]))
                else:
                    return model, ss[i]
            return model, None
        if k == "Coll":
            model, name = level(t[1], env, reached)
            if t[3] != ["None"] and name in TOMANY.get(model, {}):
                sub = {}
                level(t[3][2], dict(env, **{t[3][1][2]: TOMANY[model][name]}), sub)
                note(sub)
            return None, None
        if k in ("Bin", "Cmp", "Bool"):
            level(t[2], env, reached); level(t[3], env, reached)
        elif k == "Un":
            level(t[2], env, reached)
        elif k == "List":
            for x in t[1]:
                level(x, env, reached)
        elif k == "Call":
            for x in t[2]:
                level(x, env, reached)
        return None, None

    def note(reached):
        for m, paths in reached.items():
            if len(paths) >= 2:
                found.append(m)
    top = {}
    level(tree, {"": root}, top)
    note(top)
    return sorted(set(found))


def run(ctx):
    ctx.rule = ("relational filters from derivation machine MC_C04 (roots Post and Author) with <= MaxOps connectives/"
                "lambda brackets plus TLC-simulated deeper ones, on 2 database instances (20 posts owning every multiset "
                "of 0..3 comments over k in {1,2,3}; NULL author keys; author/org second hop with NULL; many-to-many "
                "editors with shared, empty and full sets); non-trivial = distinct (filter, instance) whose expected "
                "parent set is neither empty nor everything")
    ctx.trusted = ["spec/Rel.tla (Kleene logic; navigation through a NULL key yields NULL / empty collection)",
                   "Django 6.1 and SQLAlchemy 2.0 on SQLite 3.40", "harness/backends.py fixtures"]
    ctx.assumptions = ["lambda bodies range over non-null child columns (all(x: p) with unknown p is outside the property's quantifier)"]
    quick = ctx.tier == "quick"
    if quick:
        # the two database instances are independent: one forked worker each (own Django / SQLAlchemy fixtures)
        import multiprocessing as mp
        global _PARENT
        _PARENT = ctx
        with mp.get_context("fork").Pool(2) as pool:
            for part in pool.imap_unordered(_inst_worker, [0, 1]):
                ctx.states += part.pop("states")
                ctx.transitions += part.pop("transitions")
                ctx.tlc_cmds += part.pop("tlc_cmds")
                ctx.merge(part)
        _PARENT = None
    else:
        # first the exhaustive Post enumerations (replayed by forked workers, before this process opens any database),
        # then everything else in this process
        for inst in (0, 1):
            run_instance(ctx, inst, "big")
        for inst in (0, 1):
            run_instance(ctx, inst, "rest")
    ctx.exhaustive = False


_PARENT = None


def _inst_worker(inst):
    import common
    sub = common.Ctx(_PARENT.prop, _PARENT.tier, _PARENT.seed)
    run_instance(sub, inst)
    return {"violations": sub.violations[:200] + [(k, None) for k, _ in sub.violations[200:]], "traces": sub.traces,
            "evaluations": sub.evaluations, "nontrivial": sub.nontrivial, "samples": sub.samples, "notes": sub.notes,
            "kf_hit": sub.kf.hit, "states": sub.states, "transitions": sub.transitions, "tlc_cmds": sub.tlc_cmds}


def run_instance(ctx, inst, phase="all"):
    quick = ctx.tier == "quick"
    keep = lambda r: r.get("k") in ("case", "db")
    fix = None if not quick else _fixtures(inst, None)
    for root in ("Post", "Author", "Org"):
        # Org.authors and Post.authors share their name: Org runs after Post resolved it
        plans = [(1, None), (4, 300 if root == "Post" else 100)] if quick else [(2, None), (5, 4000 if root == "Post" else 1500)]
        if root == "Org":
            plans = [(1, None)] if quick else [(2, None)]
        seen = set()
        for mo, sim in plans:
            consts = {"MaxOps": mo, "Root": '"%s"' % root, "Inst": inst}
            w = 8 if quick else 16
            big = (not quick) and sim is None and root == "Post"
            if (phase == "big" and not big) or (phase == "rest" and big):
                continue
            raw = os.path.join(tlc.BUILD, "c04_export_%d.txt" % os.getpid()) if big else None
            if sim:
                res = tlc.run("MC_C04", constants=consts, simulate=max(1, sim // w), depth=40, seed=ctx.seed + 41 + inst,
                              keep_lines=keep, timeout=7000, heap="12g" if not quick else "5g", check_count=False, workers=w)
            else:
                res = tlc.run("MC_C04", constants=consts, keep_lines=keep, timeout=7000, heap="12g" if not quick else "5g", workers=w,
                              raw_out=raw)
            ctx.add_tlc(res)
            if big:
                # ~400 k filters x three ORM entry points: decoded and replayed in slices by forked workers, each with its
                # own Django / SQLAlchemy fixtures (created after the fork; no connection crosses it)
                global _JOB
                _JOB = inst
                try:
                    n = ctx.parallel_file(raw, _check_slice, keep=lambda r: r.get("k") in ("case", "db"), nproc=12, batch=2000)
                finally:
                    os.unlink(raw)
                    _JOB = None
                if n != res.distinct:
                    raise tlc.MachineryError("C04: %d exported lines decoded, TLC reports %d distinct states" % (n, res.distinct))
                continue
            if fix is None:
                fix = _fixtures(inst, [r for r in res.records if r["k"] == "db"][0]["db"])
            elif fix[3] is None:
                fix = _fixtures(inst, [r for r in res.records if r["k"] == "db"][0]["db"])
            dj, sa, total, _ = fix
            for r in res.records:
                if r["k"] != "case":
                    continue
                kx = json.dumps(r["tree"])
                if kx in seen:
                    continue
                seen.add(kx)
                check_case(ctx, r, inst, dj, sa, total)


_FIX = {}
_JOB = None


def _fixtures(inst, db):
    """Django + SQLAlchemy fixtures of this process for database instance `inst` (loaded once a db record is known)"""
    key = (os.getpid(), inst)
    if key not in _FIX:
        _FIX.clear()
        _FIX[key] = [backends.RelDjango(), backends.RelSa(), None, None]
    f = _FIX[key]
    if db is not None and f[3] is None:
        f[0].load(db)
        f[1].load(db)
        f[2] = {"Post": len(db["Post"]), "Author": len(db["Author"]), "Org": len(db["Org"])}
        f[3] = True
    return f


_DB_OF = {}


def _check_slice(ctx, records):
    inst = _JOB
    for r in records:
        if r["k"] == "db":
            _DB_OF[inst] = r["db"]
    if inst not in _DB_OF:
        # the db record is printed with the initial state, i.e. in the first byte range only: fetch it from the generator
        res = tlc.run("MC_C04", constants={"MaxOps": 0, "Root": '"Post"', "Inst": inst}, keep_lines=lambda r: r.get("k") == "db", workers=2)
        _DB_OF[inst] = res.records[0]["db"]
    dj, sa, total, _ = _fixtures(inst, _DB_OF[inst])
    for r in records:
        if r["k"] == "case":
            check_case(ctx, r, inst, dj, sa, total)


def check_case(ctx, r, inst, dj, sa, total):
    text = U(r["text"])
    want = sorted(r["expected"])
    f = feats(r["tree"])
    twice = same_table_twice(r["tree"], r["root"])
    for name, fn in (("django", lambda: dj.select(r["root"], text)), ("sqlalchemy", lambda: sa.select(r["root"], text, "orm")),
                     ("sqlalchemy-legacy", lambda: sa.select(r["root"], text, "legacy"))):
        if name == "sqlalchemy-legacy" and r["nops"] < 2:
            continue
        ctx.traces += 1
        try:
            got, sql = fn()
        except Exception as e:  # noqa
            ctx.violation({"what": "raised", "backend": name, "exc": type(e).__name__, "features": f, "same_table_twice": bool(twice)},
                          {"text": text, "root": r["root"], "inst": inst, "exc": str(e)[:300], "case": r})
            continue
        if got != want:
            ctx.violation({"what": "wrong-parents", "backend": name, "features": f},
                          {"text": text, "root": r["root"], "inst": inst, "expected": want, "got": got, "sql": sql[:700], "case": r})
    if 0 < len(want) < total[r["root"]]:
        ctx.nontriv([r["tree"], inst])
        if r["nops"] >= 2:
            ctx.sample({"root": r["root"], "filter": text, "expected_parents": want, "instance": inst}, cap=6)


def replay(ctx, rep):
    d = rep["detail"]
    res = tlc.run("MC_C04", constants={"MaxOps": 0, "Root": '"%s"' % d["root"], "Inst": d["inst"]},
                  keep_lines=lambda r: r.get("k") == "db")
    db = res.records[0]["db"]
    dj = backends.RelDjango(); sa = backends.RelSa()
    dj.load(db); sa.load(db)
    print("filter:", d["text"])
    check_case(ctx, d["case"], d["inst"], dj, sa, {"Post": len(db["Post"]), "Author": len(db["Author"]), "Org": len(db["Org"])})
