"""C15 - shorthands conjoin the filter with the incoming query and leave the host intact.

TLC (MC_C15) explores the query-composition machine: the host builds a base query with where / join (inner or
outer, on the relationship the filter navigates or not) / order / annotate steps in every order, in every entry
style (SQLAlchemy select() and legacy Query, Django QuerySet and Manager), then the shorthand applies one of 8
filters (with and without navigation, lambdas, functions).  For every behaviour the spec gives the base rows and
the expected rows (Rel!EvalR).  Replay: the base query is built natively following the recorded steps, the real
shorthand is applied, and the rows must be exactly the expected ones, in base order when ordered; annotations
survive; the navigated relationship is joined exactly once.  Import-order histories of the host's own
sqlalchemy.func.<name> calls are compared in fresh subprocesses.
"""
import json
import os
import re
import subprocess
import sys

import backends
import project
import tlc

U = project.uncps
HERE = os.path.dirname(os.path.dirname(os.path.abspath(__file__)))


TITLES = {}
HOST_AFTER = [None]


def build_sa(sa_db, style, steps, flt):
    from odata_query.sqlalchemy import apply_odata_query
    sa = sa_db.sa
    Post, Author = sa_db.models["Post"], sa_db.models["Author"]
    cols = style.endswith("-cols")          # the base selects the title only: rows that look alike must all be kept
    sel = style.startswith("sa-select")
    grouped = style.endswith("-grouped")    # the base aggregates: posts per author
    if grouped:
        q = sa.select(Post.author_id, sa.func.count(Post.id)).group_by(Post.author_id)
    else:
        q = (sa.select(Post.title) if cols else sa.select(Post)) if sel else sa_db.session.query(Post.title if cols else Post)
    where = (lambda q, c: q.where(c)) if sel else (lambda q, c: q.filter(c))
    for kind, arg in steps:
        if kind == "where":
            cond = {"npos": lambda: Post.n > 0, "ta": lambda: Post.title == "a",
                    "hasauthor": lambda: Post.author.has(Author.name.isnot(None))}[arg]()
            q = where(q, cond)
        elif kind == "join":
            if arg == "author-explicit":        # by target and ON clause instead of the relationship
                q = q.join(Author, Post.author_id == Author.id)
                continue
            rel = Post.author if arg.startswith("author") else Post.info
            q = q.join(rel) if arg.endswith("inner") else q.outerjoin(rel)
        elif kind == "order":
            q = q.order_by(Post.id.desc())
        elif kind == "annotate":
            q = q.add_columns((Post.id * 2).label("extra"))
        elif kind == "apply":
            host = q
            q = apply_odata_query(q, flt)
    if sel:
        rows = sa_db.session.execute(q).all()
        sql = str(q.compile(sa_db.engine))
        hrows = sa_db.session.execute(host).all()        # the host's own query object, used again afterwards
    else:
        rows = q.all()
        sql = str(q.statement.compile(sa_db.engine))
        hrows = host.all()
    if grouped:
        HOST_AFTER[0] = sorted(((r[0], r[1]) for r in hrows), key=lambda x: (x[0] is None, x[0] or 0))
        return [("group", r[0], r[1]) for r in rows], sql
    HOST_AFTER[0] = [(r[0] if cols else r[0].id if (hasattr(r, "_fields") or isinstance(r, tuple)) else r.id) for r in hrows]
    if cols:
        return [("title", r[0], r[1] if len(r) > 1 else None) for r in rows], sql
    out = []
    for r in rows:
        ent = r[0] if hasattr(r, "_fields") or isinstance(r, tuple) else r
        extra = r[1] if (hasattr(r, "_fields") or isinstance(r, tuple)) and len(r) > 1 else None
        out.append((ent.id, extra))
    return out, sql


def build_dj(dj_db, style, steps, flt):
    from django.db.models import F
    from odata_query.django import apply_odata_query
    Post = dj_db.m.Post
    if style == "dj-related":               # a related manager: the posts of author 1
        q = dj_db.m.Author.objects.get(id=1).posts
    else:
        q = Post.objects if style == "dj-manager" else Post.objects.all()
    annotated = False
    for kind, arg in steps:
        if kind == "where":
            q = {"npos": lambda q: q.filter(n__gt=0), "ta": lambda q: q.filter(title="a"),
                 "hasauthor": lambda q: q.filter(author__name__isnull=False)}[arg](q)
        elif kind == "order":
            q = q.order_by("-id")
        elif kind == "annotate":
            q = q.annotate(extra=F("id") * 2)
            annotated = True
        elif kind == "apply":
            host = q
            q = apply_odata_query(q, flt)
    rows = list(q.values_list("id", "extra")) if annotated else [(i, None) for i in q.values_list("id", flat=True)]
    HOST_AFTER[0] = list(host.all().values_list("id", flat=True))      # the host's own queryset / manager, used again afterwards
    return rows, str(q.query)


def run(ctx):
    ctx.rule = ("behaviours of the composition machine MC_C15: entry style x host steps (where in {n>0, title='a', "
                "author has name}, join in {inner, outer} on author, order by id desc, annotate) in every order x 10 "
                "filters (thorough: up to two conditions and two pre-joins); non-trivial = distinct behaviour with >= 2 host steps whose expected rows are a proper, "
                "non-empty subset of the base rows")
    ctx.trusted = ["spec/Rel.tla", "native construction of the base queries in harness/props/c15.py", "SQLite 3.40"]
    # quick: one base condition and one pre-join per host query, instance 0.  thorough: up to two base conditions and
    # two pre-joins (author and info) in every order on instance 0 (337 k behaviours), plus the quick machine on instance 1
    plans = [(0, "FALSE")] if ctx.tier == "quick" else [(0, "TRUE"), (0, "FALSE"), (1, "FALSE")]
    for inst, deep in plans:
        res = tlc.run("MC_C15", constants={"Inst": inst, "Deep": deep}, keep_lines=lambda r: r.get("k") in ("case", "db"),
                      timeout=7000, heap="12g")
        ctx.add_tlc(res)
        if res.violation:
            ctx.violation({"kind": "model", "inv": res.violation}, {"tlc": res.raw_tail[-2000:]})
        db = [r for r in res.records if r["k"] == "db"][0]["db"]
        TITLES[inst] = db["Post"]
        dj = backends.RelDjango(); dj.load(db)
        sa = backends.RelSa(); sa.load(db)
        for r in res.records:
            if r["k"] == "case":
                r["inst"] = inst
                check_case(ctx, r, dj, sa)
    registry(ctx)
    ctx.exhaustive = True


def check_case(ctx, r, dj, sa):
    flt = U(r["filter"])
    style = r["style"]
    steps = [tuple(s) for s in r["steps"]]
    key = {"style": style, "filter": flt, "host": sorted({s[0] + ":" + str(s[1]) for s in steps if s[0] != "apply"})}
    ctx.traces += 1
    try:
        rows, sql = (build_sa(sa, style, steps, flt) if style.startswith("sa") else build_dj(dj, style, steps, flt))
    except Exception as e:  # noqa
        ctx.violation(dict(key, what="raised", exc=type(e).__name__), {"case": r, "exc": str(e)[:300]})
        return
    # the host's query object still selects the base rows (the shorthand returns a new query, it does not edit the host's)
    host_ids = HOST_AFTER[0]
    if style.endswith("-grouped"):
        # an aggregating base: the filter selects the ROWS that are aggregated (posts per author of the selected posts)
        import collections
        author = {p["id"]: backends._col(p["author"]) for p in TITLES[r["inst"]]}
        ks1 = (lambda x: (x[0] is None, x[0] or 0))
        bag0 = [i for i, m in r["mult"] for _ in range(m)]
        exp = sorted(collections.Counter(author[i] for i in bag0).items(), key=ks1)
        got = sorted(((a, c) for _, a, c in rows), key=ks1)
        if got != exp:
            ctx.violation(dict(key, what="wrong-rows"), {"case": r, "got": got, "expected": exp, "sql": sql[:700]})
        if host_ids != sorted(collections.Counter(author[i] for i in r["base"]).items(), key=ks1):
            ctx.violation(dict(key, what="host-query-changed"), {"case": r, "host_rows_after": host_ids[:40]})
        if len(steps) >= 2 and 0 < len(r["expected"]) < len(r["base"]):
            ctx.nontriv([style, steps])
        return
    if style.endswith("-cols"):
        tt = {p["id"]: backends._col(p["title"]) for p in TITLES[r["inst"]]}
        ks0 = (lambda x: (x is None, x or ""))
        host_ok = sorted(host_ids, key=ks0) == sorted((tt[i] for i in r["base"]), key=ks0)
    else:
        host_ok = sorted(set(host_ids)) == sorted(r["base"])
    if not host_ok:
        ctx.violation(dict(key, what="host-query-changed"), {"case": r, "host_rows_after": host_ids[:40], "base": sorted(r["base"])[:40]})
    want = sorted(r["expected"])
    bag = sorted(i for i, m in r["mult"] for _ in range(m))          # a filter that joins a collection: once per match
    if style.endswith("-cols"):
        # the rows carry the title only: the expected bag of titles follows from the expected bag of rows
        title = {p["id"]: backends._col(p["title"]) for p in TITLES[r["inst"]]}
        got = [(t, e) for _, t, e in rows]
        exp = [(title[i], i * 2 if r["annot"] else None) for i in (sorted(bag, reverse=True) if r["ordered"] else bag)]
        ks = (lambda x: (x[0] is None, x[0] or "", x[1] or 0))
        if (got != exp) if (r["ordered"] and r["annot"]) else (sorted(got, key=ks) != sorted(exp, key=ks)):
            ctx.violation(dict(key, what="wrong-rows"), {"case": r, "got": got[:40], "expected": exp[:40], "sql": sql[:700]})
        elif r["ordered"] and [t for t, _ in got] != [t for t, _ in exp]:
            ctx.violation(dict(key, what="base-order-lost"), {"case": r, "got": got[:40], "sql": sql[:700]})
        if len(steps) >= 3 and 0 < len(want) < len(r["base"]):
            ctx.nontriv([style, steps])
        return
    ids = [i for i, _ in rows]
    dedup = list(dict.fromkeys(ids))
    if sorted(set(ids)) != want:
        ctx.violation(dict(key, what="wrong-rows"), {"case": r, "got": sorted(set(ids)), "expected": want, "sql": sql[:700]})
        return
    if style == "sa-legacy":
        bag = want             # SQLAlchemy legacy Query de-duplicates rows that carry an entity itself
    if sorted(ids) != bag:
        ctx.violation(dict(key, what="duplicate-rows"), {"case": r, "got": ids, "expected": bag, "sql": sql[:700]})
        return
    if r["ordered"] and ids != sorted(bag, reverse=True):
        ctx.violation(dict(key, what="base-order-lost"), {"case": r, "got": ids, "sql": sql[:700]})
    if r["annot"] and any(e != i * 2 for i, e in rows):
        ctx.violation(dict(key, what="annotation-lost"), {"case": r, "rows": rows[:5], "sql": sql[:700]})
    if style.startswith("sa"):
        nj = len(re.findall(r"JOIN author\b", sql))
        exp = 1 if (r["host_joined"] or r["needs_author"]) else 0
        if nj != exp:
            ctx.violation(dict(key, what="join-count", joins=nj, expected=exp), {"case": r, "sql": sql[:900]})
    if len(steps) >= 3 and 0 < len(want) < len(r["base"]):
        ctx.nontriv([style, steps])
        ctx.sample({"style": style, "host_steps": steps[:-1], "filter": flt, "base_rows": len(r["base"]), "expected": want}, cap=5)


def registry(ctx):
    out = {}
    for mode in ("before-and-after", "after-only"):
        env = dict(os.environ)
        env["VERIF_REPO"] = project.REPO
        p = subprocess.run([sys.executable, "-B", os.path.join(HERE, "func_registry_probe.py"), mode],
                           stdout=subprocess.PIPE, stderr=subprocess.PIPE, text=True, env=env, timeout=300)
        if p.returncode != 0:
            raise tlc.MachineryError("func_registry_probe failed: " + p.stderr[-800:])
        out[mode] = json.loads(p.stdout.strip().splitlines()[-1])
    base = out["before-and-after"]["before"]
    for label, snap in (("after-import", out["before-and-after"]["after"]), ("import-first", out["after-only"]["after"])):
        for name, v in snap.items():
            ctx.traces += 1
            if v != base[name]:
                ctx.violation({"what": "host-func-changed", "func": name, "history": label},
                              {"func": name, "before": base[name], "after": v, "history": label})
    ctx.sample({"host_func_registry": {k: base[k] for k in ("lower", "floor")}}, cap=6)


def replay(ctx, rep):
    d = rep["detail"]
    if "case" not in d:
        registry(ctx)
        return
    res = tlc.run("MC_C15", constants={"Inst": rep["detail"]["case"].get("inst", 0), "Deep": "FALSE"}, keep_lines=lambda r: r.get("k") == "db", timeout=3000)
    db = res.records[0]["db"]
    TITLES[rep["detail"]["case"].get("inst", 0)] = db["Post"]
    dj = backends.RelDjango(); dj.load(db)
    sa = backends.RelSa(); sa.load(db)
    print(json.dumps(d["case"])[:600])
    check_case(ctx, d["case"], dj, sa)
