"""C08 - ORM backends pass every filter value to the database as a bound parameter.

TLC (MC_C08) generates pairs of filters that differ only in literal values: 38 skeletons with one or two literal
holes (in-lists of 1000-2100 elements, comparison operands, in-lists, arithmetic between literals, function arguments, lambdas, paths) x value
pairs per kind (strings with SQL metacharacters and LIKE wildcards, integers incl. beyond 64 bits, floats, dates,
date-times, times, durations, GUIDs).  Django, SQLAlchemy ORM (select and legacy Query) and SQLAlchemy Core compile
both members (post-compile rendering on, i.e. what the driver receives); the pair of (SQL text, parameter list) is
a trace validated by TLC (Trace_Params): identical SQL token sequence, no distinctive value inside the text, every
value present in the parameter list.
"""
import json
import os

import backends
import project
import tlc

U = project.uncps


def value_alts(kind, sp):
    """parameter spellings under which a literal may legitimately reach the driver (plumbing)"""
    kind = kind.replace("Long", "").replace("Pattern", "String")
    if kind == "Integer":
        return [str(int(sp))], ([str(abs(int(sp)))] if len(sp.lstrip("-")) >= 4 else [])
    if kind == "Float":
        f = float(sp)
        return [repr(f), str(f), sp], ([repr(f)] if len(repr(f)) >= 5 else [])
    if kind == "String":
        c = sp[1:-1].replace("''", "'")
        esc = c.replace("/", "//").replace("%", "/%").replace("_", "/_")      # SQLAlchemy autoescape
        esc2 = c.replace("\\", "\\\\").replace("%", "\\%").replace("_", "\\_")  # Django LIKE escaping
        return [c, esc, esc2], ([c] if len(c) >= 3 and c.replace(" ", "").isalnum() else [])
    if kind == "Date":
        return [sp], [sp]
    if kind == "Time":
        return [sp, sp + "00000", sp.split(".")[0]], [sp.split(".")[0]]
    if kind == "DateTime":
        base = sp.replace("T", " ")
        cands = [sp, base, base.rstrip("Z"), base.rstrip("Z") + ":00"]
        import dateutil.parser
        d = dateutil.parser.isoparse(sp)
        cands += [str(d), d.strftime("%Y-%m-%d %H:%M:%S"), str(d.astimezone(__import__("datetime").timezone.utc).replace(tzinfo=None)) if d.tzinfo else str(d)]
        return cands, [sp[:10]]
    if kind == "Duration":
        from odata_query import ast
        td = ast.Duration(sp[len("duration'"):-1]).py_val
        us = int(td.total_seconds() * 10 ** 6)
        return [str(td), str(us), repr(td.total_seconds())], []
    if kind == "GUID":
        # a GUID is a 128-bit value: drivers receive it in canonical lower case whatever the case of the literal
        lo = sp.lower()
        return [sp, sp.replace("-", ""), lo, lo.replace("-", "")], [sp, sp.replace("-", ""), lo, lo.replace("-", "")]
    return [sp], []


def canon_names(sql):
    """named placeholders renamed by order of first appearance (:p1, :p2, ...): which NAME the compiler picks is its own
    business, but one name used twice where another text has two names is a difference in the statement"""
    import re
    seen = {}

    def sub(m):
        return ":p%d" % seen.setdefault(m.group(1), len(seen) + 1)
    return re.sub(r"(?<![:\w]):([A-Za-z_]\w*)", sub, sql)


def compile_all(sa):
    return [("django", backends.django_thing), ("sa-orm", sa.orm), ("sa-legacy", lambda t: sa.orm(t, True)), ("sa-core", sa.core),
            ("sa-orm-named", lambda t: sa.orm(t, False, True)), ("sa-core-named", lambda t: sa.core(t, True))]


def run(ctx):
    ctx.rule = ("38 filter skeletons (incl. an in-list of 1000 integers; thorough: also 1000 strings and 2100 + 1200 integers under not / any) x value pairs per literal kind x {Django, SQLAlchemy select, legacy Query, "
                "Core}; non-trivial = distinct (pair, backend) whose two compilations were obtained and compared")
    ctx.trusted = ["spec/SqlLex.tla", "value_alts(): spellings under which a Python value appears in a parameter list",
                   "SQLAlchemy compile with render_postcompile=True and Django sql_with_params() as 'what the driver receives'"]
    res = tlc.run("MC_C08", constants={"LongN": 1 if ctx.tier == "quick" else 3}, keep_lines=lambda r: r.get("k") == "case", timeout=3000)
    ctx.add_tlc(res)
    if res.violation:
        ctx.violation({"kind": "model", "inv": res.violation}, {"tlc": res.raw_tail[-2000:]})
    # "no value is spliced into SQL text" holds under any configuration: run with the library's loggers at DEBUG
    import logging
    logging.getLogger("odata_query").setLevel(logging.DEBUG)
    logging.getLogger("odata_query").addHandler(logging.NullHandler())
    sa = backends.ThingSa()
    traces, info = [], {}
    for r in res.records:
        t1, t2 = U(r["text1"]), U(r["text2"])
        a, b = U(r["a"]), U(r["b"])
        na, ma = value_alts(r["kind"], a)
        nb, mb = value_alts(r["kind"], b)
        for bname, fn in compile_all(sa):
            if bname.startswith("sa-core") and ("/" in t1.replace("'/'", "")) and ("cs/" in t1 or "a/" in t1):
                continue
            ctx.evaluations += 1
            outs = []
            for t in (t1, t2):
                try:
                    sql, params = fn(t)
                    if bname.endswith("-named"):
                        sql = canon_names(sql)
                    outs.append(("ok", sql, [str(p) for p in params]))
                except Exception as e:  # noqa
                    outs.append(("exc", type(e).__name__, str(e)[:100]))
            key = {"backend": bname, "kind": r["kind"], "tp": r["tp"]}
            if outs[0][0] != "ok" or outs[1][0] != "ok":
                if outs[0][:2] != outs[1][:2]:
                    ctx.violation(dict(key, what="value-dependent-outcome"), {"text1": t1, "text2": t2, "outs": outs, "case": r})
                continue
            both = r["hasb"]
            cid = len(traces) + 1
            traces.append({"id": cid, "sql1": project.cps(outs[0][1]), "sql2": project.cps(outs[1][1]),
                           "params1": [project.cps(p) for p in outs[0][2]], "params2": [project.cps(p) for p in outs[1][2]],
                           "needles1": [[project.cps(x) for x in na]] + ([[project.cps(x) for x in nb]] if both else []),
                           "needles2": [[project.cps(x) for x in nb]] + ([[project.cps(x) for x in na]] if both else []),
                           "marks1": [project.cps(x) for x in ma + (mb if both else [])],
                           "marks2": [project.cps(x) for x in mb + (ma if both else [])]})
            info[cid] = (key, t1, t2, outs, r)
    validate(ctx, traces, info)
    ctx.exhaustive = True


def validate(ctx, traces, info):
    if not traces:
        return
    os.makedirs(tlc.BUILD, exist_ok=True)
    path = os.path.join(tlc.BUILD, "trace_params_%d.json" % os.getpid())
    with open(path, "w") as f:
        json.dump(traces, f)
    try:
        res = tlc.run("Trace_Params", env={"TRACE_FILE": path}, check_count=False,
                      keep_lines=lambda r: r.get("k") == "verdict", timeout=3000, heap="12g")
    finally:
        os.unlink(path)
    ctx.add_tlc(res)
    seen = {r["id"]: r["v"] for r in res.records}
    if len(seen) != len(traces):
        raise tlc.MachineryError("Trace_Params: %d verdicts for %d traces\n%s" % (len(seen), len(traces), res.raw_tail[-1500:]))
    for cid, v in seen.items():
        ctx.traces += 1
        key, t1, t2, outs, r = info[cid]
        if v != "ok":
            ctx.violation(dict(key, what=v), {"text1": t1, "text2": t2, "sql1": outs[0][1][-400:], "sql2": outs[1][1][-400:],
                                              "params1": outs[0][2], "params2": outs[1][2], "case": r})
        else:
            ctx.nontriv([t1, t2, key["backend"]])
            ctx.sample({"filter1": t1, "filter2": t2, "backend": key["backend"], "sql_tail": outs[0][1][-120:], "params1": outs[0][2], "params2": outs[1][2]}, cap=5)


def replay(ctx, rep):
    d = rep["detail"]
    print(json.dumps({k: d[k] for k in d if k != "case"}, indent=1)[:3000])
    run(ctx)
