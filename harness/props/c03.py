"""C03 - see semcommon.py: TLC-generated typed filters with their Sem!Eval meaning, replayed through the sqlalchemy backend."""
import semcommon


def run(ctx):
    semcommon.run(ctx, "sqlalchemy")


def replay(ctx, rep):
    semcommon.replay(ctx, rep, "sqlalchemy")
