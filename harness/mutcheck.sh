#!/bin/sh
# usage: mutcheck.sh <patch.diff> <PROP> [tier]   -- run a check against a scratch copy of /repo with the patch applied
set -e
P=$(realpath "$1"); ID=$2; TIER=${3:-quick}
D=$(mktemp -d /tmp/mutXXXXXX)
cp -r /repo/odata_query "$D/"
(cd "$D" && patch -s -p1 < "$P")
cd /verif
set +e
VERIF_REPO="$D" /venv/bin/python -B harness/check.py "$ID" --tier "$TIER" 2>&1 | cut -c1-400 | head -${LINES_MAX:-12}
rm -rf "$D"
