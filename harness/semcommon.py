"""Shared driver for C01 / C02 / C03: TLC-generated typed filters with their meaning, replayed on a backend."""
import json

import backends
import project
import tlc

U = project.uncps

PLANS = {
    # tier -> [(profile, MaxOps)]
    # (profile, MaxOps) exhaustive; (profile, MaxOps, n) = n simulated behaviours (random deep filters)
    "quick": [("logic", 1), ("arith", 1), ("strings", 1), ("misc", 1), ("math", 1), ("temporal", 1), ("long", 0), ("logic", 7, 1500), ("logic", 3, 600),
              ("arith", 5, 150), ("strings", 4, 150)],
    # measured sizes (sqlite, after the atoms added in rounds 7-9): logic 2 = 96 k filters (logic 3 no longer finishes in 20 min
    # of TLC time and is sampled), arith 2 = 101 k, strings 2 = 243 k, math 2 = 184 k; misc 2 and temporal 2 exceed 1.4 M and are
    # sampled by simulation instead
    "thorough": [("logic", 2), ("arith", 2), ("strings", 2), ("misc", 1), ("math", 2), ("temporal", 1), ("long", 1),
                 ("logic", 8, 6000), ("logic", 4, 12000), ("logic", 6, 8000), ("arith", 6, 3000), ("strings", 5, 3000), ("misc", 4, 6000),
                 ("temporal", 4, 6000), ("math", 4, 3000)],
    # the ORM round trip costs 2-5 ms per query: smaller exhaustive bounds, same simulated depth
    "quick-orm": [("logic", 1), ("arith", 1), ("strings", 1), ("misc", 1), ("math", 1), ("temporal", 1), ("long", 0), ("logic", 7, 700), ("arith", 5, 150), ("strings", 4, 150)],
    "thorough-orm": [("logic", 2), ("arith", 1), ("strings", 1), ("misc", 1), ("math", 1), ("temporal", 1), ("long", 1),
                     ("logic", 8, 6000), ("arith", 6, 3000), ("strings", 5, 3000), ("misc", 4, 3000), ("temporal", 3, 3000), ("math", 3, 1500)],
}


def features(tree):
    """coarse site key of a filter: sorted set of operator / function names (for known-finding matching)"""
    out = set()

    def walk(t):
        k = t[0]
        if k in ("Bin", "Cmp", "Bool", "Un"):
            out.add(t[1])
            for c in t[2:]:
                walk(c)
        elif k == "Call":
            out.add(t[1][2])
            for c in t[2]:
                walk(c)
        elif k == "List":
            for c in t[1]:
                walk(c)
        elif k == "Lit" and t[1] == "Null":
            out.add("null")
    walk(tree)
    return sorted(out)


class Runner:
    def __init__(self, ctx, backend):
        self.ctx = ctx
        self.backend = backend
        self.groups = None
        self.db = None

    def init(self, domain):
        self.groups = backends.Groups(domain)
        if self.backend == "sqlite":
            self.db = backends.RawSqlite(self.groups)
        elif self.backend == "django":
            self.db = backends.DjangoDb(self.groups)
        else:
            self.db = backends.SaDb(self.groups)

    def styles(self, label):
        if self.backend != "sqlalchemy":
            return [None]
        self.count = getattr(self, "count", 0) + 1
        # all three entry styles on every simulated filter and every 4th enumerated one; the ORM select() style always
        if label.endswith("-sim") or label == "replay" or self.count % 4 == 0:
            return ["orm", "legacy", "core"]
        return ["orm"]

    def check(self, r, label):
        ctx = self.ctx
        cols = r["cols"]
        grp, index = self.db.ensure(cols)
        want = backends.expected_ids(index, r["sat"])
        feats = features(r["tree"])
        texts = [("min", U(r["min"]))]
        if self.backend == "sqlite" or label.endswith("-sim") or label == "replay":
            texts.append(("full", U(r["full"])))
        results = {}
        styles = self.styles(label)
        for mode, s in texts:
            for style in styles:
                ctx.traces += 1
                try:
                    if style is None:
                        got, sql = self.db.select(s, cols)
                    else:
                        got, sql = self.db.select(s, cols, style)
                except Exception as e:  # noqa
                    ctx.violation({"what": "raised", "backend": self.backend, "style": style, "exc": type(e).__name__, "features": feats},
                                  {"text": s, "exc": str(e)[:300], "case": slim(r), "gen": label})
                    continue
                results[(mode, style)] = got
                if got != want:
                    dev = None
                    for dname, dsat in r.get("satdev") or []:
                        if got == backends.expected_ids(index, dsat):
                            dev = dname
                    extra = sorted(set(got) - set(want))
                    missing = sorted(set(want) - set(got))
                    ctx.violation({"what": "wrong-rows", "backend": self.backend, "style": style, "features": feats, "deviation": dev},
                                  {"text": s, "sql": sql[:600], "n_expected": len(want), "n_got": len(got),
                                   "extra": describe(self.groups, cols, extra[:3]), "missing": describe(self.groups, cols, missing[:3]),
                                   "case": slim(r), "gen": label})
        if 0 < len(want) < len(index) and r["nops"] >= 1:
            ctx.nontriv(r["tree"])
            if r["nops"] >= 2 or label.startswith("strings"):
                ctx.sample({"filter": U(r["min"]), "columns": cols, "rows_expected": len(want), "of": len(index)}, cap=6)


def slim(r):
    return {"tree": r["tree"], "cols": r["cols"], "sat": r["sat"], "satdev": r.get("satdev", []), "min": r["min"], "full": r["full"], "nops": r["nops"]}


def describe(groups, cols, ids):
    grp, index, rows = groups.get(cols)
    byid = {rid: vals for rid, g, vals in rows}
    return [{c: (project.uncps(v[1]) if v[0] == "s" else v[1:] if v[0] != "null" else None) for c, v in byid[i].items()} for i in ids]


_JOB = None
_RUNNER = None


def _weight(plan):
    return {"temporal": 9, "strings": 7, "logic": 6, "misc": 5, "arith": 4, "long": 3, "math": 1}.get(plan[0], 1) * (1 + plan[1]) + (3 if len(plan) == 3 else 0)


def _plan_worker(i):
    import common
    parent, backend, plans = _JOB
    sub = common.Ctx(parent.prop, parent.tier, parent.seed)
    global _RUNNER
    if _RUNNER is None:                 # one database fixture per worker process, kept across the plans it takes
        _RUNNER = Runner(sub, backend)
    _RUNNER.ctx = sub
    run_plan(sub, backend, plans[i], _RUNNER, set())
    return {"violations": sub.violations[:200] + [(k, None) for k, _ in sub.violations[200:]], "traces": sub.traces,
            "evaluations": sub.evaluations, "nontrivial": sub.nontrivial, "samples": sub.samples, "notes": sub.notes,
            "kf_hit": sub.kf.hit, "states": sub.states, "transitions": sub.transitions, "tlc_cmds": sub.tlc_cmds}


def run_plan(ctx, backend, plan, runner, seen):
    prof, mo = plan[0], plan[1]
    quick = ctx.tier == "quick"
    workers = 6 if quick else 8
    consts = {"MaxOps": mo, "Profile": '"%s"' % prof, "Backend": '"%s"' % backend}
    if len(plan) == 3:
        res = tlc.run("MC_Sem", constants=consts, simulate=max(1, plan[2] // workers), depth=40, seed=ctx.seed + 101,
                      keep_lines=lambda r: r.get("k") in ("case", "domain"), timeout=7000, heap="8g" if not quick else "4g",
                      check_count=False, workers=workers)
    else:
        res = tlc.run("MC_Sem", constants=consts, keep_lines=lambda r: r.get("k") in ("case", "domain"), timeout=7000,
                      heap="8g" if not quick else "4g", workers=workers)
    label = "%s%d%s" % (prof, mo, "-sim" if len(plan) == 3 else "")
    ctx.add_tlc(res)
    dom = [r for r in res.records if r["k"] == "domain"]
    if runner.db is None:
        runner.init(dom[0]["dom"])
    # quick tier on Django: every 3rd case of the large temporal enumeration (deterministic stride)
    stride = 3 if (quick and backend == "django" and prof == "temporal") else 1
    k = 0
    for r in res.records:
        if r["k"] == "case":
            kx = json.dumps(r["tree"])
            if kx in seen:
                continue
            seen.add(kx)
            k += 1
            if k % stride:
                continue
            runner.check(r, label)


def run(ctx, backend):
    ctx.rule = ("typed scalar filters from derivation machine MC_Sem (profiles logic / arith / strings / misc / math / temporal / long = in-lists of 1203 items), each "
                "with the valuations of its referenced columns for which Sem!Eval = TRUE over the domain "
                "{NULL,-2,0,1,3} x {NULL,'','a','ab','ba','a%b','a_b','%','_',\"o'r\",'\\\\','a b'} x {NULL,T,F} x 4 datetimes "
                "(temporal profile: a second instant, dates, times of day, durations; literals with UTC offsets; instant +- duration, "
                "instant - instant, date +- days, date()/time() and extraction on each type - per backend what its SQLite binding can represent); "
                "two renderings each; non-trivial = distinct filter with >= 1 operator whose expected row set is "
                "neither empty nor everything")
    ctx.trusted = ["spec/Sem.tla (three-valued reference semantics)", "SQLite 3.40 as the engine",
                   "harness/backends.py fixtures"]
    ctx.assumptions = ["comparisons with a NULL operand are unknown (SQL-style three-valued logic, as the property states)",
                       "ASCII lower-case string domain (engine LOWER/LIKE case folding is out of scope)",
                       "divisors are non-zero literals; substring indexes are non-negative literals"]
    plans = PLANS[ctx.tier if backend == "sqlite" else ctx.tier + "-orm"]
    # the plans are independent: four forked workers, each with its own database fixture, take them in turn
    import multiprocessing as mp
    global _JOB
    _JOB = (ctx, backend, plans)
    order = sorted(range(len(plans)), key=lambda i: -_weight(plans[i]))
    with mp.get_context("fork").Pool(4) as pool:
        for part in pool.imap_unordered(_plan_worker, order):
            ctx.states += part.pop("states")
            ctx.transitions += part.pop("transitions")
            ctx.tlc_cmds += part.pop("tlc_cmds")
            ctx.merge(part)
    _JOB = None
    ctx.exhaustive = False


def replay(ctx, rep, backend):
    d = rep["detail"]
    res = tlc.run("MC_Sem", constants={"MaxOps": 0, "Profile": '"logic"', "Backend": '"%s"' % backend},
                  keep_lines=lambda r: r.get("k") == "domain")
    runner = Runner(ctx, backend)
    runner.init(res.records[0]["dom"])
    print("filter:", U(d["case"]["min"]))
    runner.check(d["case"], "replay")
