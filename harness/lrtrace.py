"""Record the node-creating reductions of the real LALR parser (instrumentation from outside: the `func` of every
SLY production is wrapped while a recording is active and restored afterwards)."""
import project
from odata_query import ast
from odata_query.grammar import ODataLexer, ODataParser


class Recording:
    def __init__(self):
        self.events = []
        self._orig = []

    def __enter__(self):
        events = self.events
        for prod in ODataParser._grammar.Productions:
            if prod.func is None:
                continue
            orig = prod.func
            self._orig.append((prod, orig))

            def wrapper(parser, p, orig=orig):
                res = orig(parser, p)
                if isinstance(res, ast._Node):
                    rhs = [getattr(s, "value", None) for s in p._slice]
                    if not any(res is v for v in rhs):
                        events.append(res)
                return res
            prod.func = wrapper
        return self

    def __exit__(self, *a):
        for prod, orig in self._orig:
            prod.func = orig
        return False


def reductions(text):
    """-> (projected AST, [projected node per node-creating reduction])"""
    with Recording() as rec:
        tree = ODataParser().parse(ODataLexer().tokenize(text))
    return project.proj(tree), [project.proj(e) for e in rec.events]
