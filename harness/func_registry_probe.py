"""Child process for C15: what do the host's own sqlalchemy.func.<name> calls produce, before and after importing
the odata_query SQLAlchemy backend?  argv[1]: 'before-and-after' | 'after-only'."""
import json
import os
import sys

sys.dont_write_bytecode = True
sys.path.insert(0, os.environ.get("VERIF_REPO", "/repo"))
import sqlalchemy as sa
from sqlalchemy import func
from sqlalchemy.dialects import postgresql, sqlite

NAMES = ["lower", "upper", "floor", "ceil", "round", "substr", "strpos", "ltrim", "rtrim", "concat", "char_length",
         "now", "length", "trim", "coalesce", "max", "count", "my_custom_fn", "odata"]
t = sa.table("t", sa.column("s", sa.String), sa.column("n", sa.Integer), sa.column("f", sa.Float))


def snap():
    out = {}
    for n in NAMES:
        try:
            arg = t.c.s if n in ("lower", "upper", "substr", "strpos", "ltrim", "rtrim", "concat", "char_length", "length", "trim") else t.c.f
            e = getattr(func, n)() if n == "now" else getattr(func, n)(arg)
            out[n] = {"cls": type(e).__module__ + "." + type(e).__name__, "type": type(e.type).__name__,
                      "sqlite": str(e.compile(dialect=sqlite.dialect())), "pg": str(e.compile(dialect=postgresql.dialect())),
                      "div_type": type((e / 2).type).__name__ if n in ("floor", "ceil", "round") else ""}
        except Exception as ex:  # noqa
            out[n] = {"error": type(ex).__name__}
    # ... and what they EVALUATE to on a connection the host opens now (a listener on Engine could swap the database's own functions)
    eng = sa.create_engine("sqlite://")
    with eng.connect() as conn:
        for n, args in (("lower", ["\u00c9MILE Stra\u00dfe"]), ("upper", ["\u00e9mile stra\u00dfe"]), ("length", ["\u00e9a"]), ("round", [2.5]),
                        ("substr", ["\u00e9abc", 2]), ("trim", ["\u00a0 x "]), ("strpos", ["abc", "b"]), ("char_length", ["abc"]),
                        ("floor", [-1.5]), ("ceil", [1.2]), ("ltrim", [" x"]), ("coalesce", [None, 3]), ("my_custom_fn", [1])):
            try:
                v = conn.execute(sa.select(getattr(func, n)(*args))).scalar()
                out.setdefault(n, {})["value"] = repr(v)
            except Exception as ex:  # noqa
                out.setdefault(n, {})["value"] = "error:" + type(ex).__name__
                conn.rollback()
    eng.dispose()
    return out


mode = sys.argv[1]
res = {}
if mode == "before-and-after":
    res["before"] = snap()
import odata_query.sqlalchemy  # noqa
from odata_query.sqlalchemy import functions_ext  # noqa
res["after"] = snap()
print(json.dumps(res))
