"""Projection between odata_query.ast nodes and the tagged-tuple trees of spec/Ast.tla (as JSON lists).

This is plumbing: a fixed, structure-preserving bijection on the parser image.  No semantics here.
"""
import os
import sys

REPO = os.environ.get("VERIF_REPO", "/repo")
if REPO not in sys.path:
    sys.path.insert(0, REPO)
sys.dont_write_bytecode = True

from odata_query import ast  # noqa: E402

BIN = {ast.Add: "add", ast.Sub: "sub", ast.Mult: "mul", ast.Div: "div", ast.Mod: "mod"}
CMP = {ast.Eq: "eq", ast.NotEq: "ne", ast.Lt: "lt", ast.LtE: "le", ast.Gt: "gt", ast.GtE: "ge", ast.In: "in"}
BOOL = {ast.And: "and", ast.Or: "or"}
UN = {ast.Not: "not", ast.USub: "neg"}
COLL = {ast.Any: "any", ast.All: "all"}
RBIN = {v: k for k, v in BIN.items()}
RCMP = {v: k for k, v in CMP.items()}
RBOOL = {v: k for k, v in BOOL.items()}
RUN = {v: k for k, v in UN.items()}
RCOLL = {v: k for k, v in COLL.items()}
LIT = {ast.Null: "Null", ast.Integer: "Integer", ast.Float: "Float", ast.Boolean: "Boolean", ast.String: "String",
       ast.Geography: "Geography", ast.Date: "Date", ast.Time: "Time", ast.DateTime: "DateTime",
       ast.Duration: "Duration", ast.GUID: "GUID"}
RLIT = {v: k for k, v in LIT.items()}


class Unprojectable(Exception):
    pass


def cps(s):
    return [ord(c) for c in s]


def uncps(a):
    return "".join(chr(c) for c in a)


def _shape(n):
    """(tag-prefix, [child nodes], suffix) for one node; children are projected separately (iteratively)."""
    t = type(n)
    if t is ast.Identifier:
        if not isinstance(n.namespace, tuple):
            # the parser builds tuples; a list with the same members makes the node compare UNEQUAL: the projection keeps that
            return ["Id", {"container": type(n.namespace).__name__, "items": list(n.namespace)}, n.name], None
        return ["Id", list(n.namespace), n.name], None
    if t is ast.Attribute:
        if not isinstance(n.attr, str):
            raise Unprojectable("Attribute.attr is %r" % (n.attr,))
        return ["Attr", None, n.attr], [(1, n.owner)]
    if t in LIT:
        k = LIT[t]
        if k == "Null":
            return ["Lit", "Null", "null"], None
        if not isinstance(n.val, str):
            raise Unprojectable("%s.val is %r" % (k, n.val))
        if k == "Integer":
            try:
                if str(int(n.val)) == n.val:
                    return ["Lit", "Integer", int(n.val)], None
            except ValueError:
                pass
            return ["Lit", "Integer", n.val], None
        if k == "String":
            return ["Lit", "String", cps(n.val)], None
        return ["Lit", k, n.val], None
    if t is ast.List:
        if not isinstance(n.val, (list, tuple)):
            raise Unprojectable("List.val is %r" % type(n.val))
        if not isinstance(n.val, list):
            return ["List", [None] * len(n.val), {"container": type(n.val).__name__}], [((1, i), x) for i, x in enumerate(n.val)]
        return ["List", [None] * len(n.val)], [((1, i), x) for i, x in enumerate(n.val)]
    if t is ast.BinOp:
        return ["Bin", BIN[type(n.op)], None, None], [(2, n.left), (3, n.right)]
    if t is ast.Compare:
        return ["Cmp", CMP[type(n.comparator)], None, None], [(2, n.left), (3, n.right)]
    if t is ast.BoolOp:
        return ["Bool", BOOL[type(n.op)], None, None], [(2, n.left), (3, n.right)]
    if t is ast.UnaryOp:
        return ["Un", UN[type(n.op)], None], [(2, n.operand)]
    if t is ast.Call:
        if not isinstance(n.args, (list, tuple)):
            raise Unprojectable("Call.args is %r" % type(n.args))
        if not isinstance(n.args, list):
            return ["Call", None, [None] * len(n.args), {"container": type(n.args).__name__}], [(1, n.func)] + [((2, i), x) for i, x in enumerate(n.args)]
        return ["Call", None, [None] * len(n.args)], [(1, n.func)] + [((2, i), x) for i, x in enumerate(n.args)]
    if t is ast.NamedParam:
        return ["Named", None, None], [(1, n.name), (2, n.param)]
    if t is ast.Lambda:
        return ["Lam", None, None], [(1, n.identifier), (2, n.expression)]
    if t is ast.CollectionLambda:
        if n.lambda_ is None:
            return ["Coll", None, COLL[type(n.operator)], ["None"]], [(1, n.owner)]
        return ["Coll", None, COLL[type(n.operator)], None], [(1, n.owner), (3, n.lambda_)]
    raise Unprojectable("not an AST node: %r" % (n,))


def proj(n):
    """odata_query.ast node -> JSON tree (iterative: trees may be tens of thousands of nodes deep).
    Raises Unprojectable for values outside the node classes."""
    root = [None]
    work = [(root, 0, n)]
    while work:
        holder, slot, node = work.pop()
        try:
            out, kids = _shape(node)
        except KeyError as e:
            raise Unprojectable("unexpected operator node %r" % (e,))
        if isinstance(slot, tuple):
            holder[slot[0]][slot[1]] = out
        else:
            holder[slot] = out
        for s, k in (kids or ()):
            work.append((out, s, k))
    return root[0]


def to_cps(t):
    """string-mode JSON tree -> code-point-mode JSON tree (pure re-encoding of names and spellings)."""
    k = t[0]
    if k == "Id":
        return ["Id", [cps(x) for x in t[1]], cps(t[2])]
    if k == "Attr":
        return ["Attr", to_cps(t[1]), cps(t[2])]
    if k == "Lit":
        if t[1] == "String":
            return t
        return ["Lit", t[1], cps(str(t[2]))]
    if k == "None":
        return t
    if k == "List":
        return ["List", [to_cps(x) for x in t[1]]]
    if k in ("Bin", "Cmp", "Bool"):
        return [k, t[1], to_cps(t[2]), to_cps(t[3])]
    if k == "Un":
        return [k, t[1], to_cps(t[2])]
    if k == "Call":
        return [k, to_cps(t[1]), [to_cps(x) for x in t[2]]]
    if k in ("Named", "Lam"):
        return [k, to_cps(t[1]), to_cps(t[2])]
    if k == "Coll":
        return [k, to_cps(t[1]), t[2], to_cps(t[3])]
    raise ValueError(t)


def children(n):
    """child nodes of a real AST node in the order of Ast.Sub (operator token nodes are not children there)."""
    t = type(n)
    if t is ast.Attribute:
        return [n.owner]
    if t is ast.List:
        return list(n.val)
    if t in (ast.BinOp, ast.Compare, ast.BoolOp):
        return [n.left, n.right]
    if t is ast.UnaryOp:
        return [n.operand]
    if t is ast.Call:
        return [n.func] + list(n.args)
    if t is ast.NamedParam:
        return [n.name, n.param]
    if t is ast.Lambda:
        return [n.identifier, n.expression]
    if t is ast.CollectionLambda:
        return [n.owner] + ([] if n.lambda_ is None else [n.lambda_])
    return []


def flat(x):
    """Iterative pre-order serialisation of a nested JSON value (comparison / hashing of very deep trees)."""
    out = []
    work = [x]
    while work:
        v = work.pop()
        if isinstance(v, list):
            out.append("[%d" % len(v))
            work.extend(reversed(v))
        else:
            out.append(v)
    return out


def build(j):
    """JSON tree -> odata_query.ast node (fresh objects, fresh lists)."""
    k = j[0]
    if k == "Id":
        return ast.Identifier(j[2], tuple(j[1]))
    if k == "Attr":
        return ast.Attribute(build(j[1]), j[2])
    if k == "Lit":
        kind, v = j[1], j[2]
        if kind == "Null":
            return ast.Null()
        if kind == "Integer":
            return ast.Integer(str(v))
        if kind == "String":
            return ast.String(uncps(v))
        return RLIT[kind](v)
    if k == "List":
        return ast.List([build(x) for x in j[1]])
    if k == "Bin":
        return ast.BinOp(RBIN[j[1]](), build(j[2]), build(j[3]))
    if k == "Cmp":
        return ast.Compare(RCMP[j[1]](), build(j[2]), build(j[3]))
    if k == "Bool":
        return ast.BoolOp(RBOOL[j[1]](), build(j[2]), build(j[3]))
    if k == "Un":
        return ast.UnaryOp(RUN[j[1]](), build(j[2]))
    if k == "Call":
        return ast.Call(build(j[1]), [build(x) for x in j[2]])
    if k == "Named":
        return ast.NamedParam(build(j[1]), build(j[2]))
    if k == "Lam":
        return ast.Lambda(build(j[1]), build(j[2]))
    if k == "Coll":
        return ast.CollectionLambda(build(j[1]), RCOLL[j[2]](), None if j[3] == ["None"] else build(j[3]))
    raise ValueError("bad tree %r" % (j,))


def text(pieces):
    """Concatenate spec text pieces (strings, code-point lists, one level of nesting)."""
    out = []
    for p in pieces:
        if isinstance(p, str):
            out.append(p)
        elif isinstance(p, int):
            out.append(chr(p))
        else:
            out.append(text(p))
    return "".join(out)


def parse(s, lexer=None, parser=None):
    from odata_query.grammar import ODataLexer, ODataParser
    lexer = lexer or ODataLexer()
    parser = parser or ODataParser()
    return parser.parse(lexer.tokenize(s))


def diag(s):
    """Outcome with the position of the error, in the vocabulary of spec/Diag.tla:
    ["ok"] | ["syntax", p] | ["token", p] | ["unknown", name_cps] | ["argc", name_cps, min, max, n] | ["other", class]
    p: 0-based index of the offending token, -1 for the end of the input."""
    from odata_query import exceptions as ex
    try:
        parse(s)
    except ex.ArgumentCountException as e:
        return ["argc", cps(e.function_name), e.exp_min_args, e.exp_max_args, e.n_args_given]
    except ex.UnknownFunctionException as e:
        return ["unknown", cps(e.function_name)]
    except ex.ParsingException as e:
        return ["syntax", -1 if (e.eof or e.token is None) else e.token.index]
    except ex.TokenizingException as e:
        return ["token", e.token.index]
    except Exception as e:  # noqa
        return ["other", type(e).__name__]
    return ["ok"]


def outcome(s, lexer=None, parser=None):
    """Parse s and project the outcome:  ["ok", tree] | ["syntax"] | ["token"] | ["unknown", name] |
    ["argc", name, min, max, n] | ["foreign", ExcClass, msg] | ["nonnode", repr]."""
    from odata_query import exceptions as ex
    try:
        r = parse(s, lexer, parser)
    except ex.ArgumentCountException as e:
        return ["argc", e.function_name, e.exp_min_args, e.exp_max_args, e.n_args_given]
    except ex.UnknownFunctionException as e:
        return ["unknown", e.function_name]
    except ex.ParsingException:
        return ["syntax"]
    except ex.TokenizingException:
        return ["token"]
    except ex.ODataException as e:
        return ["libother", type(e).__name__]
    except RecursionError as e:
        return ["foreign", "RecursionError", ""]
    except Exception as e:  # noqa
        return ["foreign", type(e).__name__, str(e)[:200]]
    if not isinstance(r, ast._Node):
        return ["nonnode", repr(r)[:200]]
    try:
        return ["ok", proj(r)]
    except Unprojectable as e:
        return ["nonnode", str(e)[:200]]
