#!/venv/bin/python
"""Binding controls for the trace specifications: for each Trace_*.tla feed one trace recorded from the real code
(must be accepted) and corrupted variants of it (must be rejected with the clause that names the corruption).
Not a registered check; run by hand:  /venv/bin/python -B harness/selftest_traces.py"""
import json
import os
import sys

sys.dont_write_bytecode = True
sys.path.insert(0, os.path.dirname(os.path.abspath(__file__)))
import project  # noqa
import tlc  # noqa

cps = project.cps


def verdicts(module, cases, extra=None):
    path = os.path.join(tlc.BUILD, "selftest_%s.json" % module)
    os.makedirs(tlc.BUILD, exist_ok=True)
    json.dump(cases if extra is None else extra(cases), open(path, "w"))
    try:
        res = tlc.run(module, env={"TRACE_FILE": path}, check_count=False, keep_lines=lambda r: r.get("k") == "verdict", workers=4)
    finally:
        os.unlink(path)
    return {r["id"]: r["v"] for r in res.records}


def expect(name, got, want):
    ok = got == want
    print("%-62s %s  (%s)" % (name, "ok" if ok else "FAILED", got))
    return ok


def main():
    ok = True
    from odata_query.roundtrip import AstToODataVisitor
    from odata_query.sql import AstToSqliteSqlVisitor
    # --- Trace_Text
    tree = project.proj(project.parse("a sub (b sub 'o''r') eq 1"))
    text = AstToODataVisitor().visit(project.parse("a sub (b sub 'o''r') eq 1"))
    v = verdicts("Trace_Text", [{"id": 1, "text": cps(text), "tree": tree},
                                {"id": 2, "text": cps(text.replace("(", "").replace(")", "")), "tree": tree},
                                {"id": 3, "text": cps(text.replace("''", "'")), "tree": tree}])
    ok &= expect("Trace_Text accepts the real rendering", v[1], "ok")
    ok &= expect("Trace_Text rejects dropped parentheses", v[2], "tree-mismatch")
    ok &= expect("Trace_Text rejects an un-doubled quote", v[3] in ("lexerror", "syntax", "tree-mismatch"), True)
    # --- Trace_Visit
    sys.path.insert(0, os.path.join(os.path.dirname(os.path.abspath(__file__)), "props"))
    import props.c16 as c16
    node = project.parse("a eq 1 and f.g(k=b)")
    tr = project.proj(node)
    rec, log = c16.make_recorder([])
    rec.visit(node)
    swapped = list(log); swapped[1], swapped[2] = swapped[2], swapped[1]
    v = verdicts("Trace_Visit", [{"id": 1, "tree": tr, "over": [], "log": log},
                                 {"id": 2, "tree": tr, "over": [], "log": swapped},
                                 {"id": 3, "tree": tr, "over": [], "log": log[:-1]},
                                 {"id": 4, "tree": tr, "over": [], "log": [[c, "visit_" + c] if i == 3 else [c, h] for i, (c, h) in enumerate(log)]}])
    ok &= expect("Trace_Visit accepts the real dispatch log", v[1], "ok")
    ok &= expect("Trace_Visit rejects two swapped events", v[2], "mismatch")
    ok &= expect("Trace_Visit rejects a dropped event", v[3], "missing-events")
    ok &= expect("Trace_Visit rejects a wrong handler name", v[4], "mismatch")
    # --- Trace_Sql (pair)
    V = AstToSqliteSqlVisitor
    o1 = V().visit(project.parse("s eq 'x'")); o2 = V().visit(project.parse("s eq 'a'' OR ''1''=''1'"))
    v = verdicts("Trace_Sql", [{"id": 1, "kind": "pair", "vary": "STR", "o1": cps(o1), "o2": cps(o2)},
                               {"id": 2, "kind": "pair", "vary": "STR", "o1": cps(o1), "o2": cps(o2.replace("''", "'"))},
                               {"id": 3, "kind": "pair", "vary": "STR", "o1": cps(o1), "o2": cps(o1 + " -- x")}])
    ok &= expect("Trace_Sql accepts the real escaped output", v[1], "ok")
    ok &= expect("Trace_Sql rejects un-doubled quotes", v[2] != "ok", True)
    ok &= expect("Trace_Sql rejects a comment marker outside the literal", v[3] != "ok", True)
    # --- Trace_Params
    c = {"id": 1, "sql1": cps("SELECT x FROM t WHERE t.n = ?"), "sql2": cps("SELECT x FROM t WHERE t.n = ?"), "params1": [cps("7301")],
         "params2": [cps("7302")], "needles1": [[cps("7301")]], "needles2": [[cps("7302")]], "marks1": [cps("7301")], "marks2": [cps("7302")]}
    c2 = dict(c, id=2, sql2=cps("SELECT x FROM t WHERE t.n = 7302"), params2=[])
    c3 = dict(c, id=3, params2=[cps("1")])
    v = verdicts("Trace_Params", [c, c2, c3])
    ok &= expect("Trace_Params accepts bound values", v[1], "ok")
    ok &= expect("Trace_Params rejects an inlined value", v[2], "sql-differs")
    ok &= expect("Trace_Params rejects a value missing from the parameters", v[3], "value-not-bound")
    # --- Trace_Tokens
    import props.c06 as c06
    toks = c06.token_trace("x sub -2 add nullable")
    bad = [list(t) for t in toks]; bad[2][0] = "DECIMAL"
    v = verdicts("Trace_Tokens", [{"id": 1, "text": cps("x sub -2 add nullable"), "toks": toks},
                                  {"id": 2, "text": cps("x sub -2 add nullable"), "toks": bad},
                                  {"id": 3, "text": cps("x sub -2 add nullable"), "toks": toks[:-1]}])
    ok &= expect("Trace_Tokens accepts the real token stream", v[1], "ok")
    ok &= expect("Trace_Tokens rejects a changed token type", v[2], "mismatch")
    ok &= expect("Trace_Tokens rejects a dropped token", v[3], "count-differs")
    # --- Trace_Complete
    base = {"backend": "sqlite", "nav": False, "geo": False, "expr": True, "outcome": "ok", "out": cps('"n" = 7301'), "params": [],
            "fields": [cps("n")], "needles": [[cps("7301")]]}
    v = verdicts("Trace_Complete", [dict(base, id=1), dict(base, id=2, out=cps('None = 7301')), dict(base, id=3, out=cps('"n" = 1')),
                                    dict(base, id=4, outcome="crash", out=[]), dict(base, id=5, backend="sa-core", nav=True, outcome="notimpl", out=[]),
                                    dict(base, id=6, backend="sa-orm", nav=True, outcome="notimpl", out=[])])
    ok &= expect("Trace_Complete accepts a complete translation", v[1], "ok")
    ok &= expect("Trace_Complete rejects the placeholder None", v[2], "placeholder")
    ok &= expect("Trace_Complete rejects a missing literal", v[3], "missing-literal")
    ok &= expect("Trace_Complete rejects an internal error", v[4], "forbidden-outcome")
    ok &= expect("Trace_Complete allows NotImplementedError for Core + navigation", v[5], "ok")
    ok &= expect("Trace_Complete rejects NotImplementedError elsewhere", v[6], "forbidden-outcome")
    # --- Trace_Reduce
    import lrtrace
    tree, ev = lrtrace.reductions("a/b/c eq 1 and f.g(x, y)")
    sw = list(ev); sw[0], sw[1] = sw[1], sw[0]
    v = verdicts("Trace_Reduce", [{"id": 1, "tree": tree, "events": ev}, {"id": 2, "tree": tree, "events": sw}, {"id": 3, "tree": tree, "events": ev[:-1]}])
    ok &= expect("Trace_Reduce accepts the real reductions", v[1], "ok")
    ok &= expect("Trace_Reduce rejects two swapped reductions", v[2], "mismatch")
    ok &= expect("Trace_Reduce rejects a dropped reduction", v[3], "missing-events")
    # --- Trace_Diag
    texts = ["foo(1) #", "concat()'s',a)", "a eq ) b", "(a #", "a eq 1"]
    real = [project.diag(t) for t in texts]
    cases = [{"id": i + 1, "text": cps(t), "real": r} for i, (t, r) in enumerate(zip(texts, real))]
    cases.append({"id": 6, "text": cps(texts[1]), "real": ["syntax", real[1][1] + 1]})       # position moved by one
    cases.append({"id": 7, "text": cps(texts[0]), "real": ["token", 7]})                      # the error that would come second
    cases.append({"id": 8, "text": cps(texts[4]), "real": ["syntax", -1]})
    v = verdicts("Trace_Diag", cases)
    ok &= expect("Trace_Diag accepts the real diagnoses", [v[i] for i in range(1, 6)], ["ok"] * 5)
    ok &= expect("Trace_Diag rejects an error position off by one", v[6], "differs")
    ok &= expect("Trace_Diag rejects the later of two errors", v[7], "differs")
    ok &= expect("Trace_Diag rejects an error for an accepted input", v[8], "differs")
    print("ALL OK" if ok else "SOME FAILED")
    return 0 if ok else 1


if __name__ == "__main__":
    sys.exit(main())
