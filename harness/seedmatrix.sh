#!/bin/sh
# Run every seeded change against the quick check of the property it targets; one line per seed in build/seedmatrix.txt
cd /verif
OUT=/verif/build/seedmatrix.txt
: > $OUT
run_one() {
  d=$1; id=${d%-*}
  if grep -q '"status_note"' seeded/$d/meta.json 2>/dev/null && grep -q Obsolete seeded/$d/meta.json; then echo "$d obsolete" >> /verif/build/seedmatrix.txt; return; fi
  r=$(LINES_MAX=400 harness/mutcheck.sh seeded/$d/patch.diff $id 2>&1)
  if echo "$r" | grep -q "^VIOLATION property=$id"; then
     k=$(echo "$r" | grep "key=" | head -1 | cut -c1-200)
     echo "$d CAUGHT by $id $k" >> /verif/build/seedmatrix.txt
  elif echo "$r" | grep -q "MACHINERY\|FAILED\|Traceback"; then
     echo "$d ERROR $(echo "$r" | tail -2 | tr '\n' ' ' | cut -c1-200)" >> /verif/build/seedmatrix.txt
  else
     echo "$d MISSED by $id" >> /verif/build/seedmatrix.txt
  fi
}
for d in $(ls seeded); do
  run_one $d &
  while [ $(jobs -r | wc -l) -ge 3 ]; do sleep 2; done
done
wait
sort -o $OUT $OUT
echo finished >> $OUT
