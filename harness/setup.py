#!/venv/bin/python
"""MANIFEST.setup_cmd: verify the offline toolchain and parse every specification module with SANY."""
import glob
import os
import subprocess
import sys

sys.dont_write_bytecode = True
HERE = os.path.dirname(os.path.abspath(__file__))
sys.path.insert(0, HERE)
import tlc  # noqa: E402


def main():
    os.makedirs(tlc.BUILD, exist_ok=True)
    for d in ("evidence", "replays"):
        os.makedirs(os.path.join(tlc.VERIF, d), exist_ok=True)
    p = subprocess.run(["java", "-version"], stdout=subprocess.PIPE, stderr=subprocess.STDOUT, text=True)
    if p.returncode != 0:
        print("java missing"); return 2
    for f in (tlc.JAR, tlc.CM):
        if not os.path.exists(f):
            print("missing", f); return 2
    bad = 0
    mods = sorted(glob.glob(os.path.join(tlc.SPEC, "*.tla")))
    for m in mods:
        name = os.path.basename(m)[:-4]
        ok, out = tlc.sany(name)
        if not ok:
            bad += 1
            print("SANY FAILED:", name); print(out[-2000:])
    print("setup: %d modules parsed, %d failed" % (len(mods), bad))
    return 0 if bad == 0 else 2


if __name__ == "__main__":
    sys.exit(main())
