"""Shared plumbing for the checks: context, violations, known findings, evidence, replay files."""
import hashlib
import json
import os
import sys
import time

VERIF = os.path.dirname(os.path.dirname(os.path.abspath(__file__)))
REPO = os.environ.get("VERIF_REPO", "/repo")
# runs against a scratch copy (negative controls, seeded changes) must not clobber committed evidence
_ALT = os.path.realpath(REPO) != "/repo"
EVIDENCE = os.path.join(VERIF, "build", "alt-evidence") if _ALT else os.path.join(VERIF, "evidence")
REPLAYS = os.path.join(VERIF, "build", "alt-replays") if _ALT else os.path.join(VERIF, "replays")
KF_PATH = os.path.join(VERIF, "known_findings.json")


def canon(x):
    return json.dumps(x, sort_keys=True, separators=(",", ":"), ensure_ascii=True)


def digest(x):
    return hashlib.sha256(canon(x).encode()).hexdigest()[:12]


class KnownFindings:
    """known_findings.json: a list of entries
         {"status": "known", "property": "C13", "id": "KF-..", "match": {...}, "what": "..."}
         {"status": "fixed", "property": .., "commit": .., "what": ..}           (suppresses nothing)
    A violation is attributed to a known finding only if every key of the entry's "match" equals the
    corresponding key of the violation's `key` dict.  Never written at run time."""

    def __init__(self):
        self.entries = []
        if os.path.exists(KF_PATH):
            self.entries = json.load(open(KF_PATH))
        self.hit = {}

    def match(self, prop, key):
        for e in self.entries:
            if e.get("status") != "known" or e.get("property") != prop:
                continue
            m = e.get("match", {})
            if m and all(key.get(k) == v for k, v in m.items()):
                self.hit.setdefault(e["id"], [e, 0])[1] += 1
                return e
        return None


_PAR = None


def _par_worker(span):
    parent, fn, records = _PAR
    sub = Ctx(parent.prop, parent.tier, parent.seed)
    fn(sub, records[span[0]:span[1]])
    return {"violations": sub.violations[:200] + [(k, None) for k, _ in sub.violations[200:]], "traces": sub.traces,
            "evaluations": sub.evaluations, "nontrivial": sub.nontrivial, "samples": sub.samples, "notes": sub.notes,
            "kf_hit": sub.kf.hit}


def _par_file_worker(span):
    parent, fn, (path, keep, batch) = _PAR
    sub = Ctx(parent.prop, parent.tier, parent.seed)
    decoded = 0
    recs = []
    with open(path, "rb") as f:
        a, b = span
        if a > 0:                      # a line belongs to the range in which it starts
            f.seek(a - 1)
            if f.read(1) != b"\n":
                f.readline()
        while f.tell() < b:
            line = f.readline()
            if not line:
                break
            if line.startswith(b'"{'):
                rec = json.loads(json.loads(line.decode("utf-8", "replace")))
                decoded += 1
                if keep is None or keep(rec):
                    recs.append(rec)
                    if len(recs) >= batch:
                        fn(sub, recs)
                        recs = []
    if recs:
        fn(sub, recs)
    return {"decoded": decoded, "violations": sub.violations[:200] + [(k, None) for k, _ in sub.violations[200:]],
            "traces": sub.traces, "evaluations": sub.evaluations, "nontrivial": sub.nontrivial, "samples": sub.samples,
            "notes": sub.notes, "kf_hit": sub.kf.hit}


class Ctx:
    def __init__(self, prop, tier, seed):
        self.prop = prop
        self.tier = tier
        self.seed = seed
        self.t0 = time.time()
        self.kf = KnownFindings()
        self.violations = []          # (key, detail)
        self.states = 0
        self.transitions = 0
        self.traces = 0               # traces/cases validated against the implementation
        self.evaluations = 0
        self.nontrivial = set()
        self.samples = []
        self.notes = {}
        self.assumptions = []
        self.trusted = []
        self.exhaustive = None
        self.rule = ""
        self.tlc_cmds = []

    # -- bookkeeping
    def add_tlc(self, res):
        self.states += res.distinct or res.generated
        self.transitions += res.generated
        self.tlc_cmds.append(res.cmd.replace(VERIF, "/verif"))

    def sample(self, x, cap=6):
        if len(self.samples) < cap:
            self.samples.append(x)

    def nontriv(self, x):
        self.nontrivial.add(digest(x))

    def violation(self, key, detail):
        """key: small dict identifying the failing site (used for known-finding matching);
        detail: JSON-able description sufficient to replay."""
        e = self.kf.match(self.prop, key)
        if e is not None:
            return False
        if len(self.violations) < 200:
            self.violations.append((key, detail))
        else:
            self.violations.append((key, None))
        return True

    # -- parallel replay (thorough tiers): the implementation side is single-threaded Python; fork workers over
    #    slices of the exported cases and merge their bookkeeping.  fn(ctx, records) must only use the Ctx API.
    def parallel(self, records, fn, nproc=14, chunk=20000):
        import multiprocessing as mp
        if len(records) <= chunk:
            return fn(self, records)
        global _PAR
        _PAR = (self, fn, records)
        spans = [(i, min(i + chunk, len(records))) for i in range(0, len(records), chunk)]
        with mp.get_context("fork").Pool(nproc) as pool:
            for part in pool.imap_unordered(_par_worker, spans):
                self.merge(part)
        _PAR = None

    def parallel_file(self, path, fn, keep=None, nproc=14, batch=5000):
        """like parallel(), for an export too large to hold in memory: TLC's raw output file is cut into byte
        ranges at line boundaries; each forked worker decodes the exported lines of its range and feeds them to
        fn(ctx, records) in batches.  Returns the number of records handled (checked against TLC's count by the caller)."""
        import multiprocessing as mp
        size = os.path.getsize(path)
        step = max(1 << 20, size // (nproc * 8))
        spans = [(a, min(a + step, size)) for a in range(0, size, step)]
        global _PAR
        _PAR = (self, fn, (path, keep, batch))
        total = 0
        with mp.get_context("fork").Pool(nproc) as pool:
            for part in pool.imap_unordered(_par_file_worker, spans):
                total += part.pop("decoded")
                self.merge(part)
        _PAR = None
        return total

    def merge(self, part):
        for key, detail in part["violations"]:
            if len(self.violations) < 200:
                self.violations.append((key, detail))
            else:
                self.violations.append((key, None))
        self.traces += part["traces"]
        self.evaluations += part["evaluations"]
        self.nontrivial |= part["nontrivial"]
        for x in part["samples"]:
            self.sample(x)
        for k, v in part["notes"].items():
            self.notes[k] = self.notes.get(k, 0) + v if isinstance(v, (int, float)) else v
        for kid, (e, cnt) in part["kf_hit"].items():
            self.kf.hit.setdefault(kid, [e, 0])[1] += cnt

    # -- finishing
    def finish(self):
        wall = time.time() - self.t0
        os.makedirs(EVIDENCE, exist_ok=True)
        for kid, (e, cnt) in sorted(self.kf.hit.items()):
            print("KNOWN-FINDING: property=%s %s: %s (%d cases)" % (self.prop, kid, e.get("what", ""), cnt))
        cov = {
            "states": int(self.states),
            "transitions": int(self.transitions),
            "traces_validated_against_impl": int(self.traces),
            "samples": self.samples or ["(no sample recorded)"],
            "evaluations": int(self.evaluations or self.traces),
            "distinct_nontrivial": len(self.nontrivial),
            "rule": self.rule,
            "trusted_base": self.trusted,
            "checker_cmd": "; ".join(self.tlc_cmds[:4]),
            "known_findings_hit": {k: v[1] for k, v in self.kf.hit.items()},
        }
        if self.exhaustive is not None:
            cov["exhaustive"] = bool(self.exhaustive)
        cov.update(self.notes)
        ev = {
            "property_id": self.prop,
            "tier": self.tier,
            "seed": int(self.seed),
            "level": "model_checking",
            "coverage": cov,
            "assumptions": self.assumptions,
            "wall_s": round(wall, 2),
            "violations": len(self.violations),
        }
        with open(os.path.join(EVIDENCE, self.prop + ".json"), "w") as f:
            json.dump(ev, f, indent=1, sort_keys=True)
        if os.path.isdir(REPLAYS):
            for fn in os.listdir(REPLAYS):           # replay files of earlier runs of this property are stale
                if fn.startswith(self.prop + "-") and fn.endswith(".json"):
                    os.unlink(os.path.join(REPLAYS, fn))
        if self.violations:
            os.makedirs(REPLAYS, exist_ok=True)
            shown = set()
            for key, detail in self.violations[:20]:
                rep = {"property": self.prop, "key": key, "detail": detail, "seed": self.seed, "tier": self.tier}
                path = os.path.join(REPLAYS, "%s-%s.json" % (self.prop, digest(rep)))
                with open(path, "w") as f:
                    json.dump(rep, f, indent=1, sort_keys=True)
                if path not in shown:
                    print("VIOLATION property=%s replay=%s" % (self.prop, path))
                    print("  key=%s" % canon(key)[:300])
                    shown.add(path)
            if len(self.violations) > 20:
                print("  (... %d violations in total)" % len(self.violations))
            import collections
            agg = collections.Counter(canon(k) for k, _ in self.violations)
            print("  violation keys (count):")
            for k, c in agg.most_common(40):
                print("   %6d  %s" % (c, k[:260]))
            return 1
        print("OK property=%s tier=%s states=%d impl_cases=%d wall=%.1fs" %
              (self.prop, self.tier, self.states, self.traces, wall))
        return 0
