"""usage: probe.py <sqlite|django|sqlalchemy> <filter> [cols]  -- run one filter through a backend on the scalar fixture"""
import json
import sys
sys.path.insert(0, __file__.rsplit("/", 1)[0])
sys.dont_write_bytecode = True
import backends, project, tlc  # noqa

res = tlc.run("MC_Sem", constants={"MaxOps": 0, "Profile": '"logic"', "Backend": '"sqlite"'}, keep_lines=lambda r: r.get("k") == "domain")
g = backends.Groups(res.records[0]["dom"])
b = sys.argv[1]
db = backends.RawSqlite(g) if b == "sqlite" else backends.DjangoDb(g) if b == "django" else backends.SaDb(g)
for f in sys.argv[2:]:
    import re
    cols = [c for c in backends.COLS if re.search(r"\b%s\b" % c, re.sub(r"'[^']*'", "", f))]
    for style in (["orm", "legacy", "core"] if b == "sqlalchemy" else [None]):
        try:
            ids, sql = db.select(f, cols) if style is None else db.select(f, cols, style)
            grp, index, rows = g.get(cols)
            byid = {rid: vals for rid, _, vals in rows}
            print("%-50s %s -> %d rows %s | %s" % (f, style or "", len(ids), [tuple(project.uncps(v[1]) if v[0] == "s" else (v[1:] or None) for v in byid[i].values()) for i in ids[:6]], sql.replace("\n", " ")[:300]))
        except Exception as e:
            print("%-50s %s -> EXC %s: %s" % (f, style or "", type(e).__name__, str(e)[:200]))
