#!/venv/bin/python
"""Regenerate /verif/MANIFEST.json from the table below (keeps the manifest valid at all times)."""
import json
import os
import sys

VERIF = os.path.dirname(os.path.dirname(os.path.abspath(__file__)))
BASELINE = ("cd /repo && /venv/bin/python -m pytest -ra -q -p no:cacheprovider --timeout=900 "
            "--continue-on-collection-errors")

# id -> (design_ref, technique, level text, level note)
CHECKS = {
    "C05": ("DESIGN.md 6/C05",
            "TLC-enumerated trees + TLA+ reference printers (PrintMin/Full/Bws) replayed into the real parser; "
            "TLC checks SpecParse(Print(t)) = t on the spec itself",
            "Exhaustive up to the operator bound: TLC enumerates every tree with <=2 (thorough: <=3) operator/bracket "
            "nodes as states of a derivation machine, proves the printer/parser round-trip theorem on the "
            "specification, and exports four renderings per tree; each is parsed by the real lexer+parser and the "
            "AST compared structurally with the generating tree. MC_C05_chain adds left- and right-nested operator runs "
            "of up to 148 (thorough: 560) operators; a separate shallow run plants the same long path under a namespaced and a plain "
            "root; Trace_Reduce validates the real parser's reduction order.",
            "Trusted: spec/OData.tla precedence table (transcribed from OData 4.01 5.1.1.14), harness/project.py "
            "AST projection, TLC. Bounded: <=2/3 operators; deeper trees only by simulation."),
    "C13": ("DESIGN.md 6/C13",
            "TLC-enumerated parser-image trees replayed through the real round-trip printer + parser; the emitted text "
            "is additionally read by the TLA+ lexer/parser spec (trace validation, Trace_Text)",
            "Exhaustive up to the bound: every tree of MC_C13's two profiles (all literal kinds/paths/calls/lambdas in "
            "every operand position; every operator nesting up to 2 (thorough 3) operators) is rendered by "
            "AstToODataVisitor; parse(render(t)) = t and the render fixpoint are checked on the real code, and TLC "
            "validates each emitted text against the specification's own lexer+parser machine, whose own "
            "print/read-back theorem TLC checks on the same trees.",
            "Trusted: spec/Lex.tla, spec/OData.tla (self-checked), harness/project.py. Bounded tree size."),
    "C10": ("DESIGN.md 6/C10",
            "TLC-enumerated atom sequences and token mutations (MC_C10) + parametric long inputs + seeded random "
            "Unicode, each parsed by the real lexer/parser in a killable child process; outcome alphabet, "
            "repeatability (fresh instances, and one lexer/parser pair reused for the whole run) and termination checked; "
            "the exact diagnosis of spec/Diag.tla (which error, at which token) is compared and reported as evidence",
            "Exhaustive for all sequences of <=3 (thorough 4) of 38 lexical atoms and all single-token mutations of "
            "all valid filters with <=1 (thorough 2) operators; sampled for long/random inputs (Trace_Diag). The oracle is the "
            "property's own statement, so no prediction can raise a false alarm.",
            "Trusted: harness/project.py outcome projection; 20 s wall-clock bound per input as 'terminates' "
            "(path length capped at 1500 segments because parsing is quadratic in path length)."),
    "C11": ("DESIGN.md 6/C11",
            "TLC enumerates (name, argc, style, context); expected outcome and exception payload computed by the TLA+ "
            "parser machine from the spec's Functions table (cross-checked against the table by an invariant); "
            "replayed into the real parser",
            "Exhaustive: 64 names (33 built-ins, 3 geo, near-misses, custom namespaces, six with non-ASCII word characters) "
            "x argc 0..5 x 10 argument styles (incl. named parameters out of alphabetical order, equal literals, non-ASCII "
            "identifiers) x 6 contexts = 22,968 calls, each in two layouts; outcome incl. exception payload must equal the spec's.",
            "Trusted: spec/OData.tla Functions table (transcribed from the OData standard)."),
    "C06": ("DESIGN.md 6/C06",
            "TLC generates literal/identifier spellings from structured descriptions (MC_C06) with exact meanings; "
            "invariant: the independently written TLA+ lexer reads each as intended; replayed into the real "
            "lexer+parser, AST val and py_val compared with the exact meaning",
            "Exhaustive over the generated families: ~6.6k spellings (boundary dates/times, 63 duration component "
            "subsets x sign x case x 4 value sets, numbers, 1.1k strings over an adversarial alphabet, GUIDs, "
            "geography, keyword cases, identifiers from <=3 (thorough 4) atoms incl. keyword fragments) x 9 contexts (identifiers: 15, incl. roots of long paths and collection owners).",
            "Trusted: MC_C06 LitGen (cross-checked against Lex.tla), expected_py() exact conversion in "
            "harness/props/c06.py (Fraction->float correctly rounded), 1-2 us tolerance for sub-microsecond parts."),
    "C19": ("DESIGN.md 6/C19",
            "TLC renders filter trees under every whitespace/BWS/keyword-case layout (MC_C19), invariant: spec "
            "lexer+parser read every layout as the expected tree; replayed into the real parser (AST + py_val) and "
            "through the backends (same result as canonical spelling)",
            "Exhaustive: all filters with <=1 (thorough: sampled 2) and/or/not over keyword-bearing predicates x 72 layouts "
            "(9 whitespace fills incl. runs of 20 blanks / newline + 17 tabs, optional whitespace on/off, 4 keyword cases incl. mIxEd).",
            "Trusted: spec/Lex.tla; backend equivalence compares results on the harness databases."),
    "C20": ("DESIGN.md 6/C20",
            "TLC explores the session machine MC_C20 (calls binding lexer/parser instances to probes, token-granular "
            "interleavings with bounded context switches); every behaviour replayed on real instances (threads with "
            "explicit hand-off per token pull); outcomes and pulled-token streams compared with fresh instances and "
            "with the spec outcome; hash-seed x import-order configurations in fresh subprocesses",
            "Exhaustive within bounds: all sequential histories of <=2 (thorough 3) calls over 3 instance pairings x 16 "
            "probes (34 now), each history also replayed after a rewriter construction that fails half-way on the same "
            "instances; outcomes include the error message and every further error attribute; all schedules of 2 interleaved "
            "calls with <=2 (thorough 3) switches over 7 (11) probes (quick replays a seeded sample of 6000 schedules); "
            "4 import orders x up to 4 hash seeds.",
            "Trusted: the hand-off harness; spec outcome per probe from Lex.tla/OData.tla."),
    "C14": ("DESIGN.md 6/C14",
            "TLC enumerates (tree, alias map) pairs (MC_C14) and computes the expected tree with the TLA+ substitution "
            "operator Rewrite!Subst (identity/bijection laws checked as invariants); replayed into AliasRewriter",
            "Exhaustive within bounds: all trees with <=1 (thorough 2) operator/bracket nodes over 27 colliding atoms x "
            "19 adversarial alias maps; result, input immutability, repeatability (fresh/reused/shared rewriter) and "
            "the bijection inverse are checked on the real code.",
            "Trusted: spec/Rewrite.tla; harness/project.py."),
    "C16": ("DESIGN.md 6/C16",
            "dispatch logs of the real NodeVisitor validated event-by-event against the TLA+ Visitor machine "
            "(Trace_Visit); transformer results compared with Visitor!ReplaceKind computed by TLC (MC_C16); "
            "non-mutation of every shipped visitor and ==/structure agreement replayed on real trees",
            "Exhaustive within bounds: every tree with <=1 wide / <=2 narrow (thorough: sampled 2 wide) operator/bracket "
            "nodes over all node kinds x (no override, every occurring class, two absent classes): each real dispatch "
            "log is a trace TLC accepts or rejects (NodeVisitor and a recording NodeTransformer); each transformer output "
            "equals the spec's; the two shipped transformers equal Rewrite!Subst / Rewrite!Relative on six trees whose "
            "lambda scopes nest, re-bind and end.",
            "Trusted: spec/Visitor.tla field table; recorder subclass (log entries are written by the handler that was "
            "actually invoked)."),
    "C17": ("DESIGN.md 6/C17",
            "TLC enumerates (expression, variable) pairs (MC_C17) and computes Rewrite!Relative; replayed into "
            "expression_relative_to_identifier incl. immutability and call-history independence",
            "Exhaustive within bounds: all trees with <=1 (thorough 2) operator/bracket nodes over 27 path/lambda/literal atoms "
            "x 3 variable names, visited in two different orders with interleaved foreign calls.",
            "Trusted: spec/Rewrite.tla; harness/project.py."),
    "C18": ("DESIGN.md 6/C18",
            "TLC enumerates well-typed expressions from a typed derivation machine (MC_C18); invariant: bottom-up "
            "Typing!TypeOf = intended type; replayed into infer_type / typecheck / SQL visitors",
            "Exhaustive within bounds: every well-typed expression with <=3 (thorough 4) function/operator nodes over 11 "
            "root types (114k states quick); inferred type must be unknown or the spec type; typecheck accepts every "
            "admissible set and rejects literals of other kinds; visited in two orders; 690 calls that Typing!MustReject "
            "declares ill-typed under every overload must be refused by the 3 SQL dialects and the 3 ORM visitors "
            "(named deviations where a backend has no check at all).",
            "Trusted: spec/Typing.tla ReturnType (transcribed from OData 4.01)."),
    "C01": ("DESIGN.md 6/C01",
            "TLC enumerates typed scalar filters (MC_Sem) and computes with the TLA+ evaluator Sem!Eval the valuations "
            "for which each filter is TRUE; replayed through AstToSqliteSqlVisitor on a real SQLite database; known deviations matched "
            "only if the result equals Sem under that named deviation",
            "Exhaustive per profile (logic/arith/strings/misc/math/temporal/long) up to the operator bound plus TLC-simulated deep filters; "
            "result sets (row ids over the cross product of the value domain incl. NULLs, negatives, LIKE/SQL "
            "metacharacters, dates, times of day, GUIDs) must equal the spec's. Both the minimal and the fully parenthesised rendering are executed.",
            "Trusted: spec/Sem.tla (Kleene logic, NULL propagation; comparisons with NULL are unknown as the property "
            "states), SQLite 3.40, harness/backends.py fixtures. ASCII lower-case data; non-zero literal divisors."),
    "C02": ("DESIGN.md 6/C02",
            "TLC enumerates typed scalar filters (MC_Sem) and computes with the TLA+ evaluator Sem!Eval the valuations "
            "for which each filter is TRUE; replayed through odata_query.django.apply_odata_query (Django configured in-process by the harness) on a real SQLite database; known deviations matched "
            "only if the result equals Sem under that named deviation",
            "Exhaustive per profile (logic/arith/strings/misc/math/temporal/long) up to the operator bound plus TLC-simulated deep filters; "
            "result sets (row ids over the cross product of the value domain incl. NULLs, negatives, LIKE/SQL "
            "metacharacters, dates, times of day, durations, offset-bearing date-time literals) must equal the spec's. Quick: <=1 operator exhaustive + ~1000 simulated filters of up to 7 operators.",
            "Trusted: spec/Sem.tla (Kleene logic, NULL propagation; comparisons with NULL are unknown as the property "
            "states), SQLite 3.40, harness/backends.py fixtures. ASCII lower-case data; non-zero literal divisors."),
    "C03": ("DESIGN.md 6/C03",
            "TLC enumerates typed scalar filters (MC_Sem) and computes with the TLA+ evaluator Sem!Eval the valuations "
            "for which each filter is TRUE; replayed through apply_odata_query / apply_odata_core (select(Model), session.query(Model), select(table)) on a real SQLite database; known deviations matched "
            "only if the result equals Sem under that named deviation",
            "Exhaustive per profile (logic/arith/strings/misc/math/temporal/long) up to the operator bound plus TLC-simulated deep filters; "
            "result sets (row ids over the cross product of the value domain incl. NULLs, negatives, LIKE/SQL "
            "metacharacters, dates, times of day, GUID text) must equal the spec's. All three entry styles on every simulated and every 4th enumerated filter, the 2.x ORM style on all.",
            "Trusted: spec/Sem.tla (Kleene logic, NULL propagation; comparisons with NULL are unknown as the property "
            "states), SQLite 3.40, harness/backends.py fixtures. ASCII lower-case data; non-zero literal divisors."),
    "C04": ("DESIGN.md 6/C04",
            "TLC enumerates relational filters (MC_C04) and computes the selected parents with the TLA+ relational "
            "evaluator Rel!EvalR on shape-complete database instances; replayed through the Django and SQLAlchemy "
            "shorthands on the same data",
            "Exhaustive up to 1 (thorough 2) connective/lambda bracket over 3 root models plus TLC-simulated deeper "
            "filters, on 2 instances; each parent set must equal the spec's on both ORMs (so the ORMs agree).",
            "Trusted: spec/Rel.tla; Django 6.1 / SQLAlchemy 2.0 / SQLite 3.40; lambda bodies over non-null child columns."),
    "C15": ("DESIGN.md 6/C15",
            "TLC explores the query-composition machine MC_C15 (host steps where/join/order/annotate in every order x "
            "entry style x filter, then Apply); every behaviour replayed on natively built host queries with the real "
            "shorthands; rows/order/annotations/join count compared with the spec (Rel!EvalR); import-order histories of "
            "sqlalchemy.func in fresh subprocesses",
            "Exhaustive: all 35k behaviours of the machine (8 entry styles incl. column-subset and aggregating bases, 3 base conditions, "
            "5 pre-joins, ordering, annotation, 10 filters + 3 comparisons on a path through a collection whose result is a "
            "bag of base rows); the host's own query object is evaluated again afterwards; 19 host func names compared "
            "(class, type, rendering, value on a fresh SQLite connection) before/after importing the backend, in both import orders.",
            "Trusted: spec/Rel.tla; native base-query construction in harness/props/c15.py; SQLite 3.40."),
    "C07": ("DESIGN.md 6/C07",
            "TLC generates filter pairs differing in one string literal / field spelling (MC_C07); the SQL emitted by the "
            "three dialects for each pair is a trace validated by TLC with the per-code-point SQL lexical automaton "
            "SqlLex (Trace_Sql): non-interference verdict per pair",
            "Exhaustive over 51 literal positions x 38 adversarial contents + 8 field positions x 11 spellings, x 3 "
            "dialects x alias on/off (11k SQL pairs); SQLite additionally prepares every statement.",
            "Trusted: spec/SqlLex.tla as the definition of SQL string-literal and quoted-identifier tokens (standard "
            "SQL quoting: doubled quotes, no backslash escapes)."),
    "C09": ("DESIGN.md 6/C09",
            "SQL emitted by the three dialects for TLC-generated typed filters, their leaves and their call skeletons is "
            "a trace validated by TLC (Trace_SqlRead) with the SQL lexer automaton and the SQL precedence reader "
            "SqlRead: well-formedness, compositional structure equality, argument-once, alias clause",
            "Exhaustive per profile up to the operator bound + simulated deeper filters (36k SQL texts quick): the tree "
            "read with standard SQL precedence must equal the tree composed from the spec's operator table, the "
            "leaves' SQL and the skeletons' SQL - no per-function template is known to the oracle.",
            "Trusted: spec/SqlLex.tla, spec/SqlRead.tla (standard precedence, || between comparison and + -), the "
            "operator table BinName. floor/ceiling on the standard dialect: known finding (pinned templates)."),
    "C08": ("DESIGN.md 6/C08",
            "TLC generates filter pairs differing only in literal values (MC_C08); the (compiled SQL, parameter list) "
            "pairs obtained from Django and the three SQLAlchemy entry styles are traces validated by TLC with the SQL "
            "lexer automaton (Trace_Params)",
            "Exhaustive over 38 skeletons (incl. in-lists of 1000-2100 elements) x value pairs per literal kind x 4 backends: identical token "
            "sequence, no distinctive value in the text, every value in the parameter list.",
            "Trusted: SqlLex.tla; compile(render_postcompile=True) / sql_with_params() as what the driver receives; "
            "value_alts() spellings."),
    "C12": ("DESIGN.md 6/C12",
            "TLC plants every construct in every type-compatible position (MC_C12) and exports the field/literal "
            "inventory; outcome class + emitted/compiled SQL + parameters of the 7 backends are traces validated by TLC "
            "(Trace_Complete: allowed-outcome contract, well-formedness, no placeholder, every field and literal "
            "represented)",
            "Exhaustive over 1,470 (construct, position) filters (incl. built-ins with named parameters, the null literal "
            "in list / call / arithmetic positions, ill-typed pattern arguments) x 7 backends; an accepted round-trip "
            "rendering is read back and must be the filter's own tree; + 17 unknown field names x 7 contexts on the three "
            "SQLAlchemy entry points.",
            "Trusted: SqlLex/SqlRead; needle spellings per literal kind; exception classification by class."),
}

PENDING = []


def main():
    checks = []
    for pid in sorted(CHECKS):
        ref, tech, text, note = CHECKS[pid]
        checks.append({
            "property_id": pid,
            "quick_cmd": "/venv/bin/python -B harness/check.py %s --tier quick" % pid,
            "thorough_cmd": "/venv/bin/python -B harness/check.py %s --tier thorough" % pid,
            "evidence_file": "/verif/evidence/%s.json" % pid,
            "replay_cmd_template": "/venv/bin/python -B harness/check.py %s --replay {path}" % pid,
            "engine": "tlc",
            "level_claimed": {"category": "model_checking", "text": text, "design_ref": ref},
            "level_note": note,
            "technique": tech,
        })
    na = [{"property_id": p, "reason": "check not built yet in this round (planned, see DESIGN.md section 6); "
                                       "not claimed until its TLA+ model and conformance harness exist"}
          for p in PENDING if p not in CHECKS]
    m = {
        "version": 1,
        "setup_cmd": "/venv/bin/python -B harness/setup.py",
        "hooks": {
            "guard": "ODATA_QUERY_VERIF",
            "enable": "no source hooks are needed: every observation is made from outside (public API, subclassing, "
                      "wrapping SLY's production table); checks import the working tree at $VERIF_REPO (default /repo)",
            "baseline_off_cmd": BASELINE,
            "source_commits": [],
            "add_only": True,
        },
        "engines": [{"name": "tlc", "path": "/opt/veriftools/tla/tla2tools.jar",
                     "serves_properties": sorted(CHECKS),
                     "kind_free_text": "TLC 1.8 explicit-state model checker on the TLA+ modules in /verif/spec; "
                                       "Python harness replays TLC-generated cases into odata_query and feeds "
                                       "recorded traces back to TLC trace specifications"}],
        "checks": checks,
        "not_applicable": na,
        "notes": "Exit codes: 0 held, 1 VIOLATION, 2 machinery failure. Known findings: /verif/known_findings.json.",
    }
    with open(os.path.join(VERIF, "MANIFEST.json"), "w") as f:
        json.dump(m, f, indent=1)
    try:
        import jsonschema
        jsonschema.validate(m, json.load(open("/root/.vp/MANIFEST.schema.json")))
        print("MANIFEST.json valid; %d checks, %d not_applicable" % (len(checks), len(na)))
    except ImportError:
        print("MANIFEST.json written (jsonschema not available for validation)")


if __name__ == "__main__":
    main()
