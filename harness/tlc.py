"""Thin wrapper around TLC: run a spec/config, collect PrintT(ToJson(..)) lines and TLC's own statistics.

No oracle logic lives here.  A TLC failure, an unparsable exported line or a line count that does not
match TLC's own "distinct states" is a *machinery* failure (MachineryError -> exit 2), never a violation.
"""
import json
import os
import re
import shutil
import subprocess
import tempfile
import time

VERIF = os.path.dirname(os.path.dirname(os.path.abspath(__file__)))
SPEC = os.path.join(VERIF, "spec")
BUILD = os.path.join(VERIF, "build")
JAR = "/opt/veriftools/tla/tla2tools.jar"
CM = "/opt/veriftools/tla/CommunityModules-deps.jar"


class MachineryError(Exception):
    pass


class TlcResult:
    def __init__(self):
        self.records = []      # decoded JSON records printed by the spec
        self.generated = 0
        self.distinct = 0
        self.depth = 0
        self.wall = 0.0
        self.violation = None  # name of a violated invariant/property (model-level), or None
        self.raw_tail = ""
        self.coverage = {}
        self.cmd = ""


def _cfg_text(base_cfg_path, constants):
    """Return config text with `NAME = value` lines of the CONSTANTS section overridden."""
    txt = open(base_cfg_path).read()
    for k, v in (constants or {}).items():
        pat = re.compile(r"^(\s*)%s\s*=\s*.*$" % re.escape(k), re.M)
        if not pat.search(txt):
            raise MachineryError("constant %s not in %s" % (k, base_cfg_path))
        txt = pat.sub(lambda m: "%s%s = %s" % (m.group(1), k, v), txt)
    return txt


def run(module, cfg=None, constants=None, workers=16, simulate=None, depth=None, seed=None, env=None,
        timeout=3600, expect_records=True, check_count=True, coverage=False, extra=None, keep_lines=None,
        javaopts=None, heap="8g", raw_out=None):
    """Run TLC on spec/<module>.tla with spec/<cfg or module>.cfg (constants overridden).

    simulate: None (exhaustive BFS) or number of behaviours for `-simulate num=N`.
    keep_lines: optional callable(record) -> bool to drop records early (memory).
    raw_out: path; the exported lines are NOT decoded into res.records but TLC's output file is moved there
             (for very large exports that are decoded in slices by forked workers, see Ctx.parallel_file).
    """
    os.makedirs(BUILD, exist_ok=True)
    work = tempfile.mkdtemp(prefix="tlc_%s_" % module, dir=BUILD)
    res = TlcResult()
    try:
        cfg_path = os.path.join(SPEC, (cfg or module) + ".cfg")
        run_cfg = os.path.join(work, module + ".cfg")
        with open(run_cfg, "w") as f:
            f.write(_cfg_text(cfg_path, constants))
        cmd = ["java", "-XX:+UseParallelGC", "-Xmx" + heap, "-Xss64m", "-Dfile.encoding=UTF-8", "-Dstdout.encoding=UTF-8"]
        cmd += list(javaopts or [])
        cmd += ["-cp", JAR + ":" + CM, "tlc2.TLC", "-metadir", os.path.join(work, "meta"), "-noGenerateSpecTE",
                "-config", run_cfg]
        if simulate is not None:
            sim = "num=%d" % simulate
            cmd += ["-simulate", sim]
            if depth:
                cmd += ["-depth", str(depth)]
            if seed is not None:
                cmd += ["-seed", str(seed)]
            cmd += ["-workers", str(min(workers, 16))]
        else:
            cmd += ["-workers", str(workers)]
        if coverage:
            cmd += ["-coverage", "1"]
        cmd += list(extra or [])
        cmd += [os.path.join(SPEC, module + ".tla")]
        res.cmd = " ".join(cmd)
        e = dict(os.environ)
        e.update(env or {})
        t0 = time.time()
        out_path = os.path.join(work, "out.txt")
        with open(out_path, "w") as out:
            try:
                p = subprocess.run(cmd, stdout=out, stderr=subprocess.STDOUT, env=e, cwd=SPEC, timeout=timeout)
            except subprocess.TimeoutExpired:
                raise MachineryError("TLC timeout after %ss: %s" % (timeout, res.cmd))
        res.wall = time.time() - t0
        tail = []
        nlines = 0
        with open(out_path, encoding="utf-8", errors="replace") as f:
            for line in f:
                if line.startswith('"{'):
                    if raw_out is not None:
                        nlines += 1
                        continue
                    try:
                        rec = json.loads(json.loads(line))
                    except Exception as ex:
                        raise MachineryError("unparsable exported line: %r (%s)" % (line[:200], ex))
                    nlines += 1
                    if keep_lines is None or keep_lines(rec):
                        res.records.append(rec)
                    continue
                tail.append(line)
                if len(tail) > 400:
                    del tail[:200]
                m = re.match(r"(\d+) states generated, (\d+) distinct states found", line)
                if m:
                    res.generated, res.distinct = int(m.group(1)), int(m.group(2))
                m = re.search(r"The depth of the complete state graph search is (\d+)", line)
                if m:
                    res.depth = int(m.group(1))
                m = re.match(r"Error: Invariant (\S+) is violated", line)
                if m:
                    res.violation = m.group(1)
                m = re.match(r"Error: Action property (\S+) is violated", line)
                if m:
                    res.violation = m.group(1)
                if line.startswith("Error: Temporal properties were violated"):
                    res.violation = "temporal"
                m = re.match(r"<(\w+) line \d+, col \d+ to line \d+, col \d+ of module (\w+)>: (\d+):(\d+)", line)
                if m:
                    res.coverage[m.group(2) + "." + m.group(1)] = int(m.group(4))
        res.raw_tail = "".join(tail[-80:])
        res.nlines = nlines
        ok_codes = (0,) if res.violation is None else (0, 12, 13)
        if simulate is not None:
            # simulation mode ends with "states generated" progress only; distinct is not reported
            m = re.findall(r"Progress: (\d+) states checked", res.raw_tail)
            if m:
                res.generated = max(res.generated, int(m[-1]))
        if p.returncode not in ok_codes:
            raise MachineryError("TLC exit %s\n%s\n%s" % (p.returncode, res.cmd, res.raw_tail[-3000:]))
        if simulate is None and check_count and res.violation is None and nlines and nlines != res.distinct:
            raise MachineryError("exported lines (%d) != distinct states (%d): lost output\n%s" %
                                 (nlines, res.distinct, res.cmd))
        if raw_out is not None:
            shutil.move(out_path, raw_out)
        if expect_records and not res.records and not (raw_out is not None and nlines) and res.violation is None:
            raise MachineryError("TLC produced no records\n%s\n%s" % (res.cmd, res.raw_tail[-3000:]))
        return res
    finally:
        shutil.rmtree(work, ignore_errors=True)


def sany(module):
    p = subprocess.run(["java", "-cp", JAR + ":" + CM, "tla2sany.SANY", os.path.join(SPEC, module + ".tla")],
                       stdout=subprocess.PIPE, stderr=subprocess.STDOUT, cwd=SPEC, text=True)
    ok = p.returncode == 0 and "Semantic errors" not in p.stdout and "*** Errors" not in p.stdout
    return ok, p.stdout
