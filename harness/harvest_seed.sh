#!/bin/sh
# usage: harvest_seed.sh <Cxx> <a|b>
# Confirms a sub-agent's seeded change in its scratch worktree (suite passes with it, demo fails with it and
# passes without it) and stores it under /verif/seeded/<Cxx>-<x>/ with the confirmation recorded in meta.json.
ID=$1; X=$2; SD=${3:-seed}; O=${4:-$X}; WT=/tmp/wt/$ID; S=$WT/$SD/$X; OUT=/verif/seeded/$ID-$O
[ -f "$S/patch.diff" ] || { echo "no patch $S"; exit 2; }
cd "$WT" || exit 2
git checkout -q -- odata_query
git apply "$S/patch.diff" || { echo "patch does not apply"; exit 2; }
T=$(/venv/bin/python -m pytest -q -p no:cacheprovider --timeout=900 --continue-on-collection-errors 2>&1 | tail -1)
/venv/bin/python "$S/demo.py" >/tmp/wt/demo_with.txt 2>&1; DW=$?
git checkout -q -- odata_query
/venv/bin/python "$S/demo.py" >/tmp/wt/demo_without.txt 2>&1; DO=$?
echo "$ID-$O tests_with_change: $T | demo_with_change_exit=$DW | demo_without_exit=$DO"
case "$T" in *"648 passed, 10 xfailed, 4 errors"*) TOK=1;; *) TOK=0;; esac
if [ "$TOK" = 1 ] && [ "$DW" != 0 ] && [ "$DO" = 0 ]; then
  mkdir -p "$OUT"
  cp "$S/patch.diff" "$OUT/patch.diff"
  sed "s#\"/tmp/wt/$ID\"#__import__('os').environ.get('SEED_REPO', '/repo')#g; s#'/tmp/wt/$ID'#__import__('os').environ.get('SEED_REPO', '/repo')#g" "$S/demo.py" > "$OUT/demo.py"
  /venv/bin/python - "$S/meta.json" "$OUT/meta.json" "$T" "$DW" "$DO" <<'PY'
import json,sys
try: m=json.load(open(sys.argv[1]))
except Exception as e: m={"note":"agent meta unreadable: %s"%e}
m["confirmed_by_main"]={"tests_with_change":sys.argv[3].strip(),"demo_exit_with_change":int(sys.argv[4]),"demo_exit_without_change":int(sys.argv[5]),
  "how":"scratch worktree /tmp/wt/<id>: git apply patch.diff; baseline pytest command; demo.py; git checkout; demo.py",
  "demo_usage":"SEED_REPO=<tree> /venv/bin/python demo.py"}
json.dump(m,open(sys.argv[2],"w"),indent=1)
PY
  echo "  kept -> $OUT"
else
  echo "  NOT kept"
fi
