"""Child process for C10/C20: parses inputs it reads as JSON lines and answers one JSON line per request.
A hang (catastrophic regex backtracking, endless loop) can then be detected and killed by the parent.
request: {"batch": [text, ...], "diag": bool}      answer: {"res": [[cls, digest, detail, nondeterministic, seconds, diag], ...]}"""
import hashlib
import json
import os
import sys
import time

sys.dont_write_bytecode = True
sys.path.insert(0, os.path.dirname(os.path.abspath(__file__)))
import project  # noqa: E402


def dig(o):
    return hashlib.sha256(repr(project.flat(o)).encode("utf-8", "surrogatepass")).hexdigest()[:16]


def main():
    out = sys.stdout
    # the second parse of every input goes through ONE lexer and ONE parser kept for the whole run: the same string must
    # give the same outcome whatever these instances processed before
    from odata_query.grammar import ODataLexer, ODataParser
    shared = (ODataLexer(), ODataParser())
    for line in sys.stdin:
        req = json.loads(line)
        res = []
        for s in req["batch"]:
            t0 = time.time()
            o1 = project.outcome(s)
            dt = time.time() - t0
            o2 = project.outcome(s, shared[0], shared[1])
            d1, d2 = dig(o1), dig(o2)
            detail = o1[1:3] if o1[0] not in ("ok",) else []
            res.append([o1[0], d1, detail, d1 != d2, round(dt, 4), project.diag(s) if req.get("diag") else None])
        out.write(json.dumps({"res": res}) + "\n")
        out.flush()


if __name__ == "__main__":
    main()
