"""Child process for C20: import the given modules in the given order, then parse a corpus and print one digest
line per text (class + digest of the full outcome).  Run with different PYTHONHASHSEED values by the parent."""
import hashlib
import importlib
import json
import os
import sys

sys.dont_write_bytecode = True
sys.path.insert(0, os.path.dirname(os.path.abspath(__file__)))


def main():
    spec = json.load(open(sys.argv[1]))
    errors = []
    for m in spec["imports_before"]:
        try:
            if m == "django-setup":
                import django
                from django.conf import settings
                if not settings.configured:
                    settings.configure(DATABASES={"default": {"ENGINE": "django.db.backends.sqlite3", "NAME": ":memory:"}},
                                       INSTALLED_APPS=[], USE_TZ=False)
                    django.setup()
            else:
                importlib.import_module(m)
        except Exception as e:  # noqa
            errors.append("%s: %s" % (m, type(e).__name__))
    import project
    out = []
    for s in spec["corpus"]:
        o = project.outcome(s)
        out.append([o[0], hashlib.sha256(repr(project.flat(o)).encode("utf-8", "surrogatepass")).hexdigest()[:12]])
    for m in spec["imports_after"]:
        try:
            importlib.import_module(m)
        except Exception as e:  # noqa
            errors.append("%s: %s" % (m, type(e).__name__))
    out2 = []
    for s in spec["corpus"]:
        o = project.outcome(s)
        out2.append([o[0], hashlib.sha256(repr(project.flat(o)).encode("utf-8", "surrogatepass")).hexdigest()[:12]])
    print(json.dumps({"before": out, "after": out2, "import_errors": errors}))


if __name__ == "__main__":
    main()
