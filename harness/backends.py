"""Database fixtures and drivers for the backends (plumbing: build tables, run the implementation, return ids).

Scalar table `row` (C01/C02/C03/C19/C15/C08): one block of rows per referenced-column subset, holding the cross
product of the spec's value domain for those columns (other columns NULL); block selected by `grp`.
Three independent in-memory SQLite databases: raw sqlite3 (SQL dialect), Django, SQLAlchemy.
"""
import datetime as dt
import itertools
import os
import sqlite3
import sys

import project  # noqa  (puts the repository under test on sys.path)

HERE = os.path.dirname(os.path.abspath(__file__))
COLS = ["n", "m", "s", "u", "b", "d", "e", "dd", "tt", "du", "g"]


def pyval(v, flavour):
    """spec value (JSON) -> value stored in the database"""
    k = v[0]
    if k == "null":
        return None
    if k == "i":
        return v[1]
    if k == "s":
        return project.uncps(v[1])
    if k == "b":
        return (1 if v[1] else 0) if flavour == "raw" else bool(v[1])
    if k == "t":
        x = dt.datetime(*v[1:7])
        return x.strftime("%Y-%m-%d %H:%M:%S") if flavour == "raw" else x
    if k == "d":
        x = dt.date(*v[1:4])
        return x.isoformat() if flavour == "raw" else x
    if k == "tod":
        x = dt.time(*v[1:4])
        return x.strftime("%H:%M:%S") if flavour == "raw" else x
    if k == "dur":
        if flavour == "raw":
            raise ValueError("the raw SQLite fixture has no duration values")
        return dt.timedelta(seconds=v[1])
    raise ValueError(v)


def vkey(tup):
    return project.canon(tup) if hasattr(project, "canon") else repr(tup)


def _canon(x):
    import json
    return json.dumps(x, sort_keys=True, separators=(",", ":"))


class Groups:
    """row blocks per column subset; identical ids in all three databases"""

    def __init__(self, domain):
        self.domain = domain            # col -> list of spec values
        self.groups = {}                # cols tuple -> (grp, {canon(valuation) -> id}, [rows])
        self.next_id = 1

    def get(self, cols):
        cols = tuple(cols)
        if cols not in self.groups:
            grp = len(self.groups) + 1
            index = {}
            rows = []
            for combo in itertools.product(*[self.domain[c] for c in cols]):
                rid = self.next_id
                self.next_id += 1
                index[_canon(list(combo))] = rid
                rows.append((rid, grp, dict(zip(cols, combo))))
            self.groups[cols] = (grp, index, rows)
        return self.groups[cols]


class RawSqlite:
    def __init__(self, groups):
        self.groups = groups
        self.conn = sqlite3.connect(":memory:")
        self.conn.execute("CREATE TABLE row (id INTEGER PRIMARY KEY, grp INTEGER, n INTEGER, m INTEGER, s TEXT, u TEXT, b INTEGER, d TEXT, "
                          "e TEXT, dd TEXT, tt TEXT, du TEXT, g TEXT)")
        self.loaded = set()

    def ensure(self, cols):
        grp, index, rows = self.groups.get(cols)
        if grp not in self.loaded:
            self.conn.executemany("INSERT INTO row (id, grp, %s) VALUES (?,?,%s)" % (", ".join(COLS), ",".join("?" * len(COLS))),
                                  [(rid, g) + tuple(pyval(vals[c], "raw") if c in vals else None for c in COLS) for rid, g, vals in rows])
            self.loaded.add(grp)
        return grp, index

    def where_clause(self, text, alias=None):
        # one visitor instance per alias for the whole run: visitors are documented as reusable, and state that
        # leaks from one translation into the next must show
        from odata_query.sql import AstToSqliteSqlVisitor
        vis = self.__dict__.setdefault("_visitors", {})
        if alias not in vis:
            vis[alias] = AstToSqliteSqlVisitor(alias)
        return vis[alias].visit(project.parse(text))

    def select(self, text, cols):
        grp, _ = self.ensure(cols)
        where = self.where_clause(text)
        cur = self.conn.execute("SELECT id FROM row WHERE grp = %d AND (%s)" % (grp, where))
        return sorted(r[0] for r in cur.fetchall()), where


_django_ready = False


def django_setup():
    global _django_ready
    if _django_ready:
        return
    if HERE not in sys.path:
        sys.path.insert(0, HERE)
    import django
    from django.conf import settings
    if not settings.configured:
        settings.configure(DATABASES={"default": {"ENGINE": "django.db.backends.sqlite3", "NAME": ":memory:"}},
                           INSTALLED_APPS=["djapp"], DEFAULT_AUTO_FIELD="django.db.models.AutoField", USE_TZ=True, TIME_ZONE="UTC")
    django.setup()
    import warnings
    warnings.filterwarnings("ignore", message=".*received a naive datetime.*")
    from django.db import connection
    from djapp import models
    with connection.schema_editor() as se:
        for m in (models.Row, models.Org, models.PostInfo, models.AuthorInfo, models.Author, models.Post, models.Comment,
                  models.Other2, models.Other, models.Thing, models.Child):
            se.create_model(m)
    _django_ready = True


class DjangoDb:
    def __init__(self, groups):
        django_setup()
        self.groups = groups
        self.loaded = set()
        from djapp.models import Row
        self.Row = Row

    def ensure(self, cols):
        grp, index, rows = self.groups.get(cols)
        if grp not in self.loaded:
            self.Row.objects.bulk_create([self.Row(id=rid, grp=g, **{c: pyval(v, "orm") for c, v in vals.items()})
                                          for rid, g, vals in rows])
            self.loaded.add(grp)
        return grp, index

    def select(self, text, cols, base="queryset"):
        from odata_query.django import apply_odata_query
        grp, _ = self.ensure(cols)
        qs = apply_odata_query(self.Row.objects.filter(grp=grp), text)
        return sorted(qs.values_list("id", flat=True)), str(qs.query)


class SaDb:
    def __init__(self, groups):
        import sqlalchemy as sa
        from sqlalchemy import event
        from sqlalchemy.orm import Session, declarative_base
        self.sa = sa
        self.groups = groups
        self.loaded = set()
        Base = declarative_base()

        class Row(Base):
            __tablename__ = "row"
            id = sa.Column(sa.Integer, primary_key=True)
            grp = sa.Column(sa.Integer)
            n = sa.Column(sa.Integer)
            m = sa.Column(sa.Integer)
            s = sa.Column(sa.String)
            u = sa.Column(sa.String)
            b = sa.Column(sa.Boolean)
            d = sa.Column(sa.DateTime)
            e = sa.Column(sa.DateTime)
            dd = sa.Column(sa.Date)
            tt = sa.Column(sa.Time)
            du = sa.Column(sa.Interval)
            g = sa.Column(sa.String)            # GUIDs kept as text

        self.Row = Row
        self.Base = Base
        self.engine = sa.create_engine("sqlite://")

        @event.listens_for(self.engine, "connect")
        def _udfs(dbapi, rec):
            # standard-SQL string functions this SQLite build lacks (engine adaptation, NULL-propagating)
            dbapi.create_function("strpos", 2, lambda a, b: None if a is None or b is None else a.find(b) + 1)
            dbapi.create_function("char_length", 1, lambda a: None if a is None else len(a))
            dbapi.create_function("concat", -1, lambda *a: None if any(x is None for x in a) else "".join(str(x) for x in a))
            # SQLAlchemy's pysqlite dialect installs a Python `floor` that raises on NULL; SQL FLOOR(NULL) is NULL
            import math
            dbapi.create_function("floor", 1, lambda a: None if a is None else math.floor(a))

        Base.metadata.create_all(self.engine)
        self.session = Session(self.engine)

    def ensure(self, cols):
        grp, index, rows = self.groups.get(cols)
        if grp not in self.loaded:
            self.session.execute(self.sa.insert(self.Row.__table__),
                                 [dict({c: None for c in COLS}, id=rid, grp=g, **{c: pyval(v, "orm") for c, v in vals.items()})
                                  for rid, g, vals in rows])
            self.session.commit()
            self.loaded.add(grp)
        return grp, index

    def select(self, text, cols, style):
        from odata_query.sqlalchemy import apply_odata_core, apply_odata_query
        sa = self.sa
        grp, _ = self.ensure(cols)
        if style == "orm":
            st = apply_odata_query(sa.select(self.Row).where(self.Row.grp == grp), text)
            ids = sorted({o.id for o in self.session.execute(st).scalars().unique()})
        elif style == "legacy":
            st = apply_odata_query(self.session.query(self.Row).filter(self.Row.grp == grp), text)
            ids = sorted({o.id for o in st.all()})
            st = st.statement
        else:
            tb = self.Row.__table__
            st = apply_odata_core(sa.select(tb).where(tb.c.grp == grp), text)
            ids = sorted({r[0] for r in self.session.execute(st)})
        return ids, str(st.compile(self.engine, compile_kwargs={"literal_binds": False}))


def expected_ids(index, sat):
    return sorted(index[_canon(v)] for v in sat)


# ---------------------------------------------------------------------------------------------- relational fixture
def _col(v, flavour="orm"):
    return pyval(v, flavour)


class RelDjango:
    """Org <- Author <- Post <-> Author (editors), Post <- Comment, loaded from the spec's database instance."""

    def __init__(self):
        django_setup()
        from djapp import models
        self.m = models

    def load(self, db):
        m = self.m
        for model in (m.Comment, m.Post, m.Author, m.Org, m.PostInfo, m.AuthorInfo):
            model.objects.all().delete()
        m.Post.authors.through.objects.all().delete()
        m.Org.objects.bulk_create([m.Org(id=r["id"], name=_col(r["name"]), k=_col(r["k"])) for r in db["Org"]])
        leads = [(r["id"], _col(r["lead"])) for r in db["Org"]]        # set once the authors exist (circular keys)
        m.PostInfo.objects.bulk_create([m.PostInfo(id=r["id"], tag=_col(r["tag"])) for r in db["PostInfo"]])
        m.AuthorInfo.objects.bulk_create([m.AuthorInfo(id=r["id"], tag=_col(r["tag"])) for r in db["AuthorInfo"]])
        m.Author.objects.bulk_create([m.Author(id=r["id"], name=_col(r["name"]), age=_col(r["age"]), rank=_col(r["rank"]),
                                               org_id=_col(r["org"]), info_id=_col(r["info"]), home_id=_col(r["home"])) for r in db["Author"]])
        for r in db["Author"]:              # self-references once all authors exist
            if _col(r["boss"]) is not None:
                m.Author.objects.filter(id=r["id"]).update(boss_id=_col(r["boss"]))
        m.Post.objects.bulk_create([m.Post(id=r["id"], title=_col(r["title"]), n=_col(r["n"]), author_id=_col(r["author"]),
                                           info_id=_col(r["info"])) for r in db["Post"]])
        m.Comment.objects.bulk_create([m.Comment(id=r["id"], text=_col(r["text"]), k=_col(r["k"]), post_id=_col(r["post"]))
                                       for r in db["Comment"]])
        for oid, lead in leads:
            if lead is not None:
                m.Org.objects.filter(id=oid).update(lead_id=lead)
        thr = m.Post.authors.through
        thr.objects.bulk_create([thr(post_id=p, author_id=a) for p, a in db["editors"]])

    def select(self, root, text, base=None):
        from odata_query.django import apply_odata_query
        model = getattr(self.m, root)
        qs = apply_odata_query(model.objects.all() if base is None else base(model), text)
        return sorted(set(qs.values_list("id", flat=True))), str(qs.query)


class RelSa:
    def __init__(self):
        import sqlalchemy as sa
        from sqlalchemy import event
        from sqlalchemy.orm import Session, declarative_base, relationship
        self.sa = sa
        Base = declarative_base()
        post_editors = sa.Table("post_editors", Base.metadata,
                                sa.Column("post_id", sa.Integer, sa.ForeignKey("post.id")),
                                sa.Column("author_id", sa.Integer, sa.ForeignKey("author.id")))

        class Org(Base):
            __tablename__ = "org"
            id = sa.Column(sa.Integer, primary_key=True)
            name = sa.Column(sa.String)
            k = sa.Column(sa.Integer)
            authors = relationship("Author", back_populates="org", foreign_keys="Author.org_id")
            lead_id = sa.Column(sa.Integer, sa.ForeignKey("author.id", use_alter=True, name="fk_org_lead"))    # back to Author
            lead = relationship("Author", foreign_keys=[lead_id], post_update=True)

        class PostInfo(Base):
            __tablename__ = "post_info"
            id = sa.Column(sa.Integer, primary_key=True)
            tag = sa.Column(sa.String)

        class AuthorInfo(Base):
            __tablename__ = "author_info"
            id = sa.Column(sa.Integer, primary_key=True)
            tag = sa.Column(sa.String)

        class Author(Base):
            __tablename__ = "author"
            id = sa.Column(sa.Integer, primary_key=True)
            name = sa.Column(sa.String)
            age = sa.Column(sa.Integer)
            rank = sa.Column(sa.Integer, nullable=False)
            org_id = sa.Column(sa.Integer, sa.ForeignKey("org.id"))
            org = relationship("Org", back_populates="authors", foreign_keys=[org_id])
            info_id = sa.Column(sa.Integer, sa.ForeignKey("author_info.id"))
            info = relationship("AuthorInfo")
            home_id = sa.Column(sa.Integer, sa.ForeignKey("org.id"), nullable=False)     # a NOT NULL key
            home = relationship("Org", foreign_keys=[home_id])
            boss_id = sa.Column(sa.Integer, sa.ForeignKey("author.id"))                   # self-referential
            boss = relationship("Author", remote_side=[id], foreign_keys=[boss_id])
            posts = relationship("Post", back_populates="author")
            edited = relationship("Post", secondary=post_editors, back_populates="authors")

        class Post(Base):
            __tablename__ = "post"
            id = sa.Column(sa.Integer, primary_key=True)
            title = sa.Column(sa.String)
            n = sa.Column(sa.Integer)
            author_id = sa.Column(sa.Integer, sa.ForeignKey("author.id"))
            author = relationship("Author", back_populates="posts")
            info_id = sa.Column(sa.Integer, sa.ForeignKey("post_info.id"))
            info = relationship("PostInfo")
            authors = relationship("Author", secondary=post_editors, back_populates="edited")
            comments = relationship("Comment", back_populates="post")

        class Comment(Base):
            __tablename__ = "comment"
            id = sa.Column(sa.Integer, primary_key=True)
            text = sa.Column(sa.String)
            k = sa.Column(sa.Integer, nullable=False)
            post_id = sa.Column(sa.Integer, sa.ForeignKey("post.id"))
            post = relationship("Post", back_populates="comments")

        self.models = {"Org": Org, "Author": Author, "Post": Post, "Comment": Comment, "PostInfo": PostInfo, "AuthorInfo": AuthorInfo}
        self.post_editors = post_editors
        self.Base = Base
        self.engine = sa.create_engine("sqlite://")

        @event.listens_for(self.engine, "connect")
        def _udfs(dbapi, rec):
            dbapi.create_function("strpos", 2, lambda a, b: None if a is None or b is None else a.find(b) + 1)
            dbapi.create_function("char_length", 1, lambda a: None if a is None else len(a))
            dbapi.create_function("concat", -1, lambda *a: None if any(x is None for x in a) else "".join(str(x) for x in a))

        Base.metadata.create_all(self.engine)
        self.session = Session(self.engine)

    def load(self, db):
        sa, M, s = self.sa, self.models, self.session
        s.execute(sa.delete(self.post_editors))
        for name in ("Comment", "Post", "Author", "Org", "PostInfo", "AuthorInfo"):
            s.execute(sa.delete(M[name].__table__))
        s.execute(sa.insert(M["PostInfo"].__table__), [dict(id=r["id"], tag=_col(r["tag"])) for r in db["PostInfo"]])
        s.execute(sa.insert(M["AuthorInfo"].__table__), [dict(id=r["id"], tag=_col(r["tag"])) for r in db["AuthorInfo"]])
        s.execute(sa.insert(M["Org"].__table__), [dict(id=r["id"], name=_col(r["name"]), k=_col(r["k"]), lead_id=_col(r["lead"])) for r in db["Org"]])
        s.execute(sa.insert(M["Author"].__table__), [dict(id=r["id"], name=_col(r["name"]), age=_col(r["age"]), rank=_col(r["rank"]),
                                                          org_id=_col(r["org"]), info_id=_col(r["info"]), home_id=_col(r["home"]), boss_id=_col(r["boss"])) for r in db["Author"]])
        s.execute(sa.insert(M["Post"].__table__), [dict(id=r["id"], title=_col(r["title"]), n=_col(r["n"]), author_id=_col(r["author"]),
                                                        info_id=_col(r["info"])) for r in db["Post"]])
        s.execute(sa.insert(M["Comment"].__table__), [dict(id=r["id"], text=_col(r["text"]), k=_col(r["k"]), post_id=_col(r["post"]))
                                                           for r in db["Comment"]])
        if db["editors"]:
            s.execute(sa.insert(self.post_editors), [dict(post_id=p, author_id=a) for p, a in db["editors"]])
        s.commit()

    def select(self, root, text, style="orm", base=None):
        from odata_query.sqlalchemy import apply_odata_query
        sa = self.sa
        model = self.models[root]
        if style == "orm":
            q = sa.select(model) if base is None else base(model, "orm", self)
            st = apply_odata_query(q, text)
            ids = sorted({o.id for o in self.session.execute(st).scalars().unique()})
            return ids, str(st.compile(self.engine))
        q = self.session.query(model) if base is None else base(model, "legacy", self)
        st = apply_odata_query(q, text)
        return sorted({o.id for o in st.all()}), str(st.statement.compile(self.engine))


# ---------------------------------------------------------------------------------------------- translation-only schema
class ThingSa:
    """SQLAlchemy models/table `thing` with one column per spec type, a to-one relation `a` and a collection `cs`."""

    def __init__(self):
        import sqlalchemy as sa
        from sqlalchemy.orm import Session, declarative_base, relationship
        self.sa = sa
        Base = declarative_base()

        class Other2(Base):
            __tablename__ = "other2"
            id = sa.Column(sa.Integer, primary_key=True)
            c = sa.Column(sa.Integer)

        class Other(Base):
            __tablename__ = "other"
            id = sa.Column(sa.Integer, primary_key=True)
            p = sa.Column(sa.Integer)
            name = sa.Column(sa.String)
            b_id = sa.Column(sa.Integer, sa.ForeignKey("other2.id"))
            b = relationship(lambda: Other2)
            cs = relationship(lambda: Child, back_populates="other", foreign_keys=lambda: [Child.other_id])

        class Thing(Base):
            __tablename__ = "thing"
            id = sa.Column(sa.Integer, primary_key=True)
            n = sa.Column(sa.Integer)
            m = sa.Column(sa.Integer)
            f = sa.Column(sa.Float)
            s = sa.Column(sa.String)
            u = sa.Column(sa.String)
            b = sa.Column(sa.Boolean)
            d = sa.Column(sa.DateTime)
            dd = sa.Column(sa.Date)
            tt = sa.Column(sa.Time)
            du = sa.Column(sa.Interval)
            gid = sa.Column(sa.String)
            g = sa.Column(sa.String)
            l = sa.Column(sa.String)
            a_id = sa.Column(sa.Integer, sa.ForeignKey("other.id"))
            a = relationship(lambda: Other, foreign_keys=lambda: [Thing.a_id])
            a2_id = sa.Column(sa.Integer, sa.ForeignKey("other.id"))                # a second route into Other
            a2 = relationship(lambda: Other, foreign_keys=lambda: [Thing.a2_id])
            cs = relationship(lambda: Child, back_populates="thing")

        class Child(Base):
            __tablename__ = "child"
            id = sa.Column(sa.Integer, primary_key=True)
            n = sa.Column(sa.Integer)
            f = sa.Column(sa.Float)
            s = sa.Column(sa.String)
            b = sa.Column(sa.Boolean)
            d = sa.Column(sa.DateTime)
            dd = sa.Column(sa.Date)
            tt = sa.Column(sa.Time)
            du = sa.Column(sa.Interval)
            gid = sa.Column(sa.String)
            g = sa.Column(sa.String)
            l = sa.Column(sa.String)
            a_id = sa.Column(sa.Integer, sa.ForeignKey("other.id"))
            a = relationship(lambda: Other, foreign_keys=lambda: [Child.a_id])
            thing_id = sa.Column(sa.Integer, sa.ForeignKey("thing.id"))
            thing = relationship(lambda: Thing, back_populates="cs")
            other_id = sa.Column(sa.Integer, sa.ForeignKey("other.id"))
            other = relationship(lambda: Other, back_populates="cs", foreign_keys=lambda: [Child.other_id])

        self.Thing, self.Other, self.Child = Thing, Other, Child
        self.engine = sa.create_engine("sqlite://")
        Base.metadata.create_all(self.engine)
        self.session = Session(self.engine)

    def compile(self, st, named=False):
        # named: the default dialect (named parameters), where one shared bind parameter shows as one placeholder name
        c = st.compile(compile_kwargs={"render_postcompile": True}) if named else st.compile(self.engine, compile_kwargs={"render_postcompile": True})
        params = c.params
        return str(c), [params[k] for k in params]

    def orm(self, text, legacy=False, named=False):
        from odata_query.sqlalchemy import apply_odata_query
        q = self.session.query(self.Thing) if legacy else self.sa.select(self.Thing)
        st = apply_odata_query(q, text)
        return self.compile(st.statement if legacy else st, named)

    def core(self, text, named=False):
        from odata_query.sqlalchemy import apply_odata_core
        return self.compile(apply_odata_core(self.sa.select(self.Thing.__table__), text), named)


def django_thing(text):
    django_setup()
    from djapp.models import Thing
    from odata_query.django import apply_odata_query
    qs = apply_odata_query(Thing.objects.all(), text)
    sql, params = qs.query.sql_with_params()
    return sql, list(params)


def orm_visitors():
    """(name, factory) of the ORM visitors for the non-mutation part of C16"""
    django_setup()
    from djapp.models import Thing
    from odata_query.django import AstToDjangoQVisitor
    from odata_query.sqlalchemy import AstToSqlAlchemyCoreVisitor, AstToSqlAlchemyOrmVisitor
    t = ThingSa()
    return [("django", lambda: AstToDjangoQVisitor(Thing)), ("sa-orm", lambda: AstToSqlAlchemyOrmVisitor(t.Thing)),
            ("sa-core", lambda: AstToSqlAlchemyCoreVisitor(t.Thing.__table__))]


# ---------------------------------------------------------------------------------------------- C19: equivalence of two spellings
class Backends:
    """Translate two spellings of one filter with every backend; ORM compilations are compared directly (same SQL text
    and same parameter values = same result), SQL dialect outputs are queued and validated by TLC (Trace_Sql "same")."""

    def __init__(self, ctx):
        from odata_query.sql import AstToAthenaSqlVisitor, AstToSqliteSqlVisitor, AstToSqlVisitor
        self.ctx = ctx
        self.dialects = [("sql", AstToSqlVisitor), ("sqlite", AstToSqliteSqlVisitor), ("athena", AstToAthenaSqlVisitor)]
        self.sa = ThingSa()
        self.queue = []
        self.info = {}
        self.cache = {}

    def _one(self, name, fn, text):
        k = (name, text)
        if k not in self.cache:
            try:
                self.cache[k] = ("ok", fn(text))
            except Exception as e:  # noqa
                self.cache[k] = ("exc", type(e).__name__)
        return self.cache[k]

    def equivalent(self, canon, variant, meta=None):
        out = []
        for name, V in self.dialects:
            a = self._one(name, lambda t: V().visit(project.parse(t)), canon)
            b = self._one(name, lambda t: V().visit(project.parse(t)), variant)
            if a[0] != b[0] or (a[0] == "exc" and a != b):
                out.append((name, "outcome %s vs %s" % (a, b)))
            elif a[0] == "ok" and a[1] != b[1]:
                cid = len(self.queue) + 1
                self.queue.append({"id": cid, "kind": "same", "vary": "", "o1": project.cps(a[1]), "o2": project.cps(b[1])})
                self.info[cid] = (name, canon, variant, a[1], b[1], meta)
        for name, fn in (("django", django_thing), ("sa-orm", self.sa.orm), ("sa-core", self.sa.core)):
            a = self._one(name, fn, canon)
            b = self._one(name, fn, variant)
            if a[0] != b[0] or (a[0] == "exc" and a != b):
                out.append((name, "outcome %s vs %s" % (a[:2], b[:2])))
            elif a[0] == "ok" and (a[1][0] != b[1][0] or [repr(p) for p in a[1][1]] != [repr(p) for p in b[1][1]]):
                out.append((name, "compiled differently: %s %s | %s %s" % (a[1][0][-160:], a[1][1], b[1][0][-160:], b[1][1])))
        return out

    def finish(self):
        """-> list of (dialect, canon, variant, sql1, sql2, verdict, meta) for queued pairs TLC rejects"""
        import json
        import tlc
        if not self.queue:
            return []
        os.makedirs(tlc.BUILD, exist_ok=True)
        path = os.path.join(tlc.BUILD, "trace_same_%d.json" % os.getpid())
        with open(path, "w") as f:
            json.dump(self.queue, f)
        try:
            res = tlc.run("Trace_Sql", env={"TRACE_FILE": path}, check_count=False,
                          keep_lines=lambda r: r.get("k") == "verdict", timeout=3000, heap="12g")
        finally:
            os.unlink(path)
        self.ctx.add_tlc(res)
        seen = {r["id"]: r["v"] for r in res.records}
        if len(seen) != len(self.queue):
            raise tlc.MachineryError("Trace_Sql(same): %d verdicts for %d pairs" % (len(seen), len(self.queue)))
        bad = []
        for cid, v in seen.items():
            self.ctx.traces += 1
            if v != "ok":
                bad.append(self.info[cid][:5] + (v, self.info[cid][5]))
        return bad
