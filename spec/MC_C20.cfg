INIT Init
NEXT Next
CONSTANTS
  MaxCalls = 2
  MaxSwitches = 0
  MaxInFlight = 1
  Sequential = TRUE
  ProbeSet = {1,2,3,4,5,6,7,8,9,10,11,12,13,14,15,16,17,18,19,20,21,22,23,24,25,26,27,28,29,30,31,32,33,34}
  CpsMode = TRUE
INVARIANT NoSharedInstance
INVARIANT ActiveSane
INVARIANT Export
CHECK_DEADLOCK FALSE
