----------------------------- MODULE Trace_Visit -----------------------------
(***************************************************************************)
(* Trace validation of NodeVisitor dispatch logs against the Visitor       *)
(* machine.  Cases (JSON, env TRACE_FILE): records                         *)
(*   [id, tree, over (sequence of class names), log (sequence of           *)
(*    <<class, handler>> recorded from the real visitor)]                  *)
(* Each case is replayed event by event: TraceDispatch consumes log[pos]   *)
(* iff it is exactly the dispatch the machine performs next.  Verdict:     *)
(*   ok | mismatch@<pos> | extra-events | missing-events                   *)
(***************************************************************************)
EXTENDS Visitor, Json, IOUtils, TLC
Cases == JsonDeserialize(IOEnv.TRACE_FILE)
VARIABLES lo, hi, work, pos, started

Init == lo = 1 /\ hi = Len(Cases) /\ work = <<>> /\ pos = 1 /\ started = FALSE
Split == /\ lo < hi /\ ~started
         /\ LET mid == (lo + hi) \div 2 IN
            \/ (lo' = lo /\ hi' = mid)
            \/ (lo' = mid + 1 /\ hi' = hi)
         /\ UNCHANGED <<work, pos, started>>
C == Cases[lo]
OverOf(c) == { c.over[i] : i \in 1..Len(c.over) }
Start == /\ lo = hi /\ ~started /\ Len(Cases) > 0
         /\ started' = TRUE /\ work' = <<C.tree>> /\ pos' = 1
         /\ UNCHANGED <<lo, hi>>
IsEvent(e) == pos <= Len(C.log) /\ C.log[pos] = e
TraceDispatch == /\ started /\ work # <<>>
                 /\ LET s == DispatchStep(work, OverOf(C)) IN
                    /\ IsEvent(s[2])
                    /\ work' = s[1] /\ pos' = pos + 1
                 /\ UNCHANGED <<lo, hi, started>>
Next == Split \/ Start \/ TraceDispatch

Stuck == started /\ ~(work # <<>> /\ pos <= Len(C.log) /\ C.log[pos] = DispatchStep(work, OverOf(C))[2])
VerdictOf == IF work = <<>> /\ pos = Len(C.log) + 1 THEN "ok"
             ELSE IF work = <<>> THEN "extra-events"
             ELSE IF pos > Len(C.log) THEN "missing-events"
             ELSE "mismatch"
Verdict == Stuck => PrintT(ToJson([k |-> "verdict", id |-> C.id, v |-> VerdictOf, at |-> pos]))
=============================================================================
