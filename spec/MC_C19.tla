------------------------------ MODULE MC_C19 ------------------------------
(***************************************************************************)
(* C19: whitespace layout and keyword case.  Trees are boolean filters     *)
(* over a small typed schema (n:int, s:string, b:bool, d:datetime,         *)
(* cs: collection) so that the same cases can be executed on the backends. *)
(* Each tree is rendered under a layout                                    *)
(*    ws   - the code points used for whitespace runs ("mixed" rotates     *)
(*           through several runs by position)                             *)
(*    bws  - whether optional whitespace is inserted at every position     *)
(*           where the grammar allows it                                   *)
(*    kc   - letter case of keywords: "l" lower, "u" UPPER, "c" Capitalised,*)
(*           "m" mIxEd                                                     *)
(* The expected AST is the tree itself with literal spellings re-cased     *)
(* (same Python values).  Model-level theorem: the spec lexer+parser read  *)
(* every layout as the expected tree.                                      *)
(***************************************************************************)
EXTENDS Lex, Json
CONSTANTS MaxOps
VARIABLES t, n, lay

nI == Id0("n")  sI == Id0("s")  bI == Id0("b")  dI == Id0("d")
HB == Hole("b")
Preds == { Cmp("eq", nI, IntL(1)), Cmp("ne", sI, NullL), Cmp("eq", bI, BoolL("true")), Cmp("eq", BoolL("false"), bI),
           Cmp("gt", dI, Lit("DateTime", "2020-02-29T10:05:00Z")), Cmp("le", dI, Lit("DateTime", "2021-01-01T00:00:00+01:00")),
           Cmp("in", nI, Lst(<<IntL(1), IntL(-2)>>)), Cmp("in", sI, Lst(<<StrL(<<97>>)>>)),
           Call(Id0("contains"), <<sI, StrL(<<97, 32, 32, 98>>)>>),
           Cmp("eq", Call(Id0("substring"), <<sI, IntL(1), IntL(2)>>), StrL(<<69, 81>>)),
           Cmp("lt", Bin("add", nI, IntL(1)), Lit("Float", "1.5e1")),
           \* every shape of the exponent: without a fraction, signed
           Cmp("ge", nI, Lit("Float", "1e2")), Cmp("ne", Bin("mul", nI, Lit("Float", "25e-1")), Lit("Float", "1e+2")),
           Cmp("gt", Bin("mod", Un("neg", nI), IntL(3)), IntL(0)),
           Coll(Id0("cs"), "any", None), Coll(Id0("cs"), "any", Lam(Id0("x"), Cmp("gt", Attr(Id0("x"), "n"), IntL(1)))),
           Coll(Id0("cs"), "all", Lam(Id0("x"), Cmp("ne", Attr(Id0("x"), "n"), NullL))),
           \* identifiers that begin with a keyword, after "(" "," ":" and before ")" ","
           Cmp("in", Id0("notes"), Lst(<<Id0("index"), Id0("andy"), Id0("order")>>)),
           Cmp("eq", Call(Id0("concat"), <<Id0("subtotal"), Id0("initials")>>), Id0("equal")),
           Coll(Id0("cs"), "any", Lam(Id0("inv"), Cmp("gt", Attr(Id0("inv"), "n"), Id0("nexus")))),
           Cmp("eq", Id0("dur"), Lit("Duration", "P1DT2H")), Cmp("eq", Call(Id0("now"), <<>>), dI) }
Expand(s) == { <<0, x>> : x \in Preds }
       \cup { <<1, Bool(o, HB, HB)>> : o \in {"and", "or"} }
       \cup { <<1, Un("not", HB)>> }

\* (the last two: runs longer than any bound a "hardened" whitespace rule might put on them)
WsRuns == << <<32>>, <<32, 32>>, <<9>>, <<10>>, <<13, 10>>, <<32, 9, 10, 32>>, [i \in 1..20 |-> 32], <<10>> \o [i \in 1..17 |-> 9] >>
Layouts == { [ws |-> w, bws |-> bw, kc |-> k] : w \in (1..Len(WsRuns)) \cup {0}, bw \in BOOLEAN, k \in {"l", "u", "c", "m"} }
NoLay == [ws |-> -1]

Init == t = HB /\ n = 0 /\ lay = NoLay
Fill == /\ lay = NoLay
        /\ LET h == FirstHole(t) IN
           /\ h # NoHole
           /\ \E e \in Expand(h[2]) : n + e[1] <= MaxOps /\ t' = FillFirst(t, e[2]) /\ n' = n + e[1]
        /\ UNCHANGED lay
Lay == /\ lay = NoLay /\ ~HasHole(t) /\ \E l \in Layouts : lay' = l
       /\ UNCHANGED <<t, n>>
Next == Fill \/ Lay
IsCase == lay # NoLay

\* ---- casing
\* "m": mIxEd (letters alternate, lower case first)
Recase(cps, k) == IF k = "l" THEN LowerSeq(cps) ELSE IF k = "u" THEN UpperSeq(cps)
                  ELSE IF k = "m" THEN [i \in 1..Len(cps) |-> IF i % 2 = 1 THEN Lower(cps[i]) ELSE Upper(cps[i])]
                  ELSE IF cps = <<>> THEN cps ELSE <<Upper(cps[1])>> \o LowerSeq(Tail(cps))
\* keyword letters inside literals: null/true/false, the T/Z of date-times, the exponent e
CaseLitVal(kind, v, k) ==
  CASE kind \in {"Boolean"} -> Recase(StrCps(v), k)
    [] kind \in {"DateTime", "Float"} -> IF k = "l" THEN LowerSeq(StrCps(v)) ELSE UpperSeq(StrCps(v))
    [] OTHER -> LitCps(kind, v)
\* spelling of a literal under case k (the duration prefix and body are case-insensitive; the AST upper-cases the body)
LitTextK(kind, v, k) ==
  CASE kind = "Null" -> Recase(StrCps("null"), k)
    [] kind = "Duration" -> Recase(StrCps("duration"), k) \o <<39>> \o (IF k = "l" THEN LowerSeq(StrCps(v)) ELSE StrCps(v)) \o <<39>>
    [] kind \in {"Boolean", "DateTime", "Float"} -> CaseLitVal(kind, v, k)
    [] OTHER -> LitText(kind, v)
W(i) == IF lay.ws = 0 THEN WsRuns[1 + (i % Len(WsRuns))] ELSE WsRuns[lay.ws]
TokTextL(tok, i) ==
  CASE tok[1] = "id"  -> JoinDots(tok[2] \o <<tok[3]>>)
    [] tok[1] = "lit" -> LitTextK(tok[2], tok[3], lay.kc)
    [] tok[1] = "op"  -> W(i) \o Recase(StrCps(tok[2]), lay.kc) \o W(i + 1)
    [] tok[1] = "not" -> Recase(StrCps("not"), lay.kc) \o W(i)
    [] tok[1] \in {"any", "all"} -> Recase(StrCps(tok[1]), lay.kc)
    [] tok[1] = "neg" -> <<45>>
    [] tok[1] = "ws"  -> W(i)
    [] OTHER -> StrCps(tok[1])
RECURSIVE TextL(_, _)
TextL(toks, i) == IF toks = <<>> THEN <<>> ELSE TokTextL(toks[1], i) \o TextL(Tail(toks), i + 1)
Text == TextL(Pr(t, IF lay.bws THEN "bws" ELSE "min"), 0)
Canon == TextOf(Pr(t, "min"), SP)

RECURSIVE CaseTree(_, _)
CaseTree(x, k) ==
  CASE x[1] = "Id"   -> <<"Id", [i \in 1..Len(x[2]) |-> StrCps(x[2][i])], StrCps(x[3])>>
    [] x[1] = "Lit"  -> <<"Lit", x[2], CaseLitVal(x[2], x[3], k)>>
    [] x[1] = "Attr" -> <<"Attr", CaseTree(x[2], k), StrCps(x[3])>>
    [] x[1] = "None" -> x
    [] OTHER -> LET ks == Sub(x) IN Rebuild(x, [i \in 1..Len(ks) |-> CaseTree(ks[i], k)])
Expected == CaseTree(t, lay.kc)

SpecReadsLayout == IsCase => ParseText(Text) = <<"ok", Expected>>

Export == PrintT(ToJson(IF IsCase
            THEN [k |-> "case", text |-> Text, canon |-> Canon, tree |-> Expected, lay |-> lay, nops |-> n]
            ELSE [k |-> "partial"]))
=============================================================================
