INIT Init
NEXT Next
CONSTANTS
  MaxOps = 2
  Profile = "misc"
  Backend = "sqlite"
  Deviations = {}
  CpsMode = FALSE
INVARIANT Export
CHECK_DEADLOCK FALSE
