INIT Init
NEXT Next
CONSTANTS
  MaxOps = 2
  Profile = "misc"
  Backend = "sqlite"
  Deviations = {}
  LongN = 1201
  CpsMode = FALSE
INVARIANT Export
CHECK_DEADLOCK FALSE
