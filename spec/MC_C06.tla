------------------------------ MODULE MC_C06 ------------------------------
(***************************************************************************)
(* C06: literal and identifier spellings generated from structured         *)
(* descriptions (the OData ABNF for each primitive kind plus the library's *)
(* documented duration extension), each embedded in several expression     *)
(* contexts.  For every case the module knows, by construction,            *)
(*    text    - the spelling (code points)                                 *)
(*    kind    - the literal kind                                           *)
(*    val     - the value the AST node must carry (code points)            *)
(*    mean    - the exact meaning (integers / digit strings), from which   *)
(*              the harness computes the expected Python value             *)
(* Model-level theorem: the spec's own lexer+parser (Lex.tla, written      *)
(* independently of this generator) reads every case as the expected tree. *)
(* Staged: Init picks a family, Next a spelling, then a context, so that   *)
(* the work is spread over all TLC workers.                                *)
(***************************************************************************)
EXTENDS Lex, Json
CONSTANTS IdAtomsMax,     \* identifiers: sequences of up to this many atoms
          OnlyFam         \* "" = all families, otherwise just that one
VARIABLES fam, lit, ctxt

S(x) == StrCps(x)
D2(n) == <<48 + (n \div 10), 48 + (n % 10)>>
D4(n) == <<48 + (n \div 1000), 48 + ((n \div 100) % 10), 48 + ((n \div 10) % 10), 48 + (n % 10)>>
Case(k, text, val, mean) == [kind |-> k, text |-> text, val |-> val, mean |-> mean]

\* ------------------------------------------------------------- integers / decimals
Signs == {"", "+", "-"}
IntDigits == {"0", "7", "10", "007", "2147483647", "9223372036854775808", "99999999999999999999"}
Integers == { Case("Integer", S(s) \o S(d), S(s) \o S(d), <<"int", s, S(d)>>) : s \in Signs, d \in IntDigits }
Fracs == {"", "5", "05", "125", "000001"}
Exps == {<<"", "", "">>, <<"e", "", "0">>, <<"E", "", "3">>, <<"e", "+", "10">>, <<"e", "-", "2">>, <<"E", "-", "320">>}
DecText(s, i, f, e) == S(s) \o S(i) \o (IF f = "" THEN <<>> ELSE <<46>> \o S(f)) \o S(e[1]) \o S(e[2]) \o S(e[3])
Decimals == { Case("Float", DecText(q[1], q[2], q[3], q[4]), DecText(q[1], q[2], q[3], q[4]),
                   <<"dec", q[1], S(q[2]), S(q[3]), q[4][2], S(q[4][3])>>)
              : q \in { r \in Signs \X {"0", "1", "12"} \X Fracs \X Exps : ~(r[3] = "" /\ r[4][1] = "") } }
\* ------------------------------------------------------------- keywords
Booleans == { Case("Boolean", S(w), S(w), <<"bool", b>>) :
                <<w, b>> \in {<<"true", TRUE>>, <<"TRUE", TRUE>>, <<"True", TRUE>>, <<"tRuE", TRUE>>,
                              <<"false", FALSE>>, <<"FALSE", FALSE>>, <<"False", FALSE>>} }
Nulls == { Case("Null", S(w), S("null"), <<"null">>) : w \in {"null", "NULL", "Null", "nULL"} }
\* ------------------------------------------------------------- strings
Q == 39
StrAlpha == {120, 32, Q, 37, 95, 92, 34, 233, 128165, 10}
StrContents == {<<>>} \cup { <<c>> : c \in StrAlpha } \cup { <<c, d>> : c \in StrAlpha, d \in StrAlpha }
               \cup { <<c, d, e>> : c \in {120, Q, 37}, d \in StrAlpha, e \in {120, Q, 92} }
               \cup { S("null"), S(" eq "), S("it's"), S("''"), S("a' or '1'='1"), S("duration'P1D'"), S("2020-01-01"),
                      \* text that is not in Unicode normal form C (decomposed accent, ANGSTROM SIGN, OHM SIGN, Hangul jamo)
                      <<99, 97, 102, 101, 769>>, <<8491>>, <<8486, 120>>, <<4352, 4449, 4520>> }
Strings == { Case("String", <<Q>> \o EscapeQuotes(c) \o <<Q>>, c, <<"str", c>>) : c \in StrContents }
Geographies == { Case("Geography", S(p) \o <<Q>> \o S(c) \o <<Q>>, S(c), <<"geo", S(c)>>) :
                   p \in {"geography", "GEOGRAPHY", "Geography"},
                   c \in {"POINT(1 2)", "SRID=4326;POINT(-122.1 47.6)", "", "POINT(1 2) -- O''Hare", "''"} }
\* ------------------------------------------------------------- GUIDs
Guids == { Case("GUID", S(g), S(g), <<"guid", LowerSeq(S(g))>>) :
             g \in {"00000000-0000-0000-0000-000000000000", "01234567-89ab-cdef-0123-456789abcdef",
                    "FFFFFFFF-FFFF-FFFF-FFFF-FFFFFFFFFFFF", "a7af27e6-F5A0-11e9-9649-0A252986adba",
                    "deadbeef-dead-beef-dead-beefdeadbeef",
                    \* first groups that read like numbers with an exponent, a date or a negative number follows
                    "12e45678-1234-5678-9abc-def012345678", "1E234567-0000-4000-8000-000000000000", "9999999e-1234-4321-8765-123456789012",
                    "0e000000-0000-0000-0000-000000000000", "20200229-1200-4000-8000-00000000e000"} }
\* ------------------------------------------------------------- dates and times
IsLeap(y) == (y % 4 = 0 /\ y % 100 # 0) \/ y % 400 = 0
DaysIn(y, m) == IF m = 2 THEN (IF IsLeap(y) THEN 29 ELSE 28) ELSE IF m \in {4, 6, 9, 11} THEN 30 ELSE 31
Years == {1000, 1900, 1999, 2000, 2020, 2023, 9999}
Months == {1, 2, 9, 10, 11, 12}
Days == {1, 9, 10, 28, 29, 30, 31}
DateText(y, m, d) == D4(y) \o <<45>> \o D2(m) \o <<45>> \o D2(d)
Dates == { Case("Date", DateText(y, m, d), DateText(y, m, d), <<"date", y, m, d>>) :
             y \in Years, m \in Months, d \in {x \in Days : TRUE} }
ValidDates == { c \in Dates : c.mean[4] <= DaysIn(c.mean[2], c.mean[3]) }
Hours == {0, 9, 10, 19, 20, 23}
Minutes == {0, 9, 10, 59}
Seconds == {0, 59}
FracDigits == {"", "0", "5", "123", "123456", "999999", "1234567", "123456789012"}
TimeText(h, mi, s, f) == D2(h) \o <<58>> \o D2(mi) \o <<58>> \o D2(s) \o (IF f = "" THEN <<>> ELSE <<46>> \o S(f))
Times == { Case("Time", TimeText(h, mi, s, f), TimeText(h, mi, s, f), <<"time", h, mi, s, S(f)>>) :
             h \in Hours, mi \in Minutes, s \in Seconds, f \in FracDigits }
DtDates == {<<1000, 1, 1>>, <<2020, 2, 29>>, <<1999, 12, 31>>, <<9999, 12, 31>>}
DtTimes == {<<0, 0>>, <<23, 59>>, <<12, 30>>}
\* seconds part: <<present, s, frac>>
DtSecs == {<<FALSE, 0, "">>, <<TRUE, 0, "">>, <<TRUE, 59, "">>, <<TRUE, 59, "123">>, <<TRUE, 7, "123456">>, <<TRUE, 0, "5">>}
\* offset: <<text, kind, sign, hh, mm>>
Offsets == {<<"", "none", 1, 0, 0>>, <<"Z", "utc", 1, 0, 0>>, <<"z", "utc", 1, 0, 0>>, <<"+00:00", "off", 1, 0, 0>>,
            <<"+01:00", "off", 1, 1, 0>>, <<"-05:30", "off", -1, 5, 30>>, <<"+23:59", "off", 1, 23, 59>>,
            <<"-23:59", "off", -1, 23, 59>>}
DtText(d, tsep, hm, sec, off) ==
   DateText(d[1], d[2], d[3]) \o S(tsep) \o D2(hm[1]) \o <<58>> \o D2(hm[2])
   \o (IF sec[1] THEN <<58>> \o D2(sec[2]) \o (IF sec[3] = "" THEN <<>> ELSE <<46>> \o S(sec[3])) ELSE <<>>)
   \o S(off[1])
DateTimes == { Case("DateTime", DtText(d, ts, hm, sec, off), DtText(d, ts, hm, sec, off),
                    <<"datetime", d[1], d[2], d[3], hm[1], hm[2], IF sec[1] THEN sec[2] ELSE 0, S(sec[3]),
                      off[2], off[3], off[4], off[5]>>) :
                 d \in DtDates, ts \in {"T", "t"}, hm \in DtTimes, sec \in DtSecs, off \in Offsets }
\* ------------------------------------------------------------- durations
\* components: <<Y, M, D, H, Mi, Sint, Sfrac>> ; presence: subset of 1..6 ; sign
DurVals == { <<1, 2, 3, 4, 5, 6, "">>, <<0, 12, 31, 23, 59, 59, "999">>, <<10, 0, 0, 100, 0, 0, "5">>, <<2, 18, 400, 0, 90, 3600, "000001">>, <<0, 1, 1, 1, 1, 1, "1234567">> }
Presence == (SUBSET (1..6)) \ {{}}
DurNum(n) == NatCps(n)
DurBody(v, p) ==
   <<80>> \o (IF 1 \in p THEN DurNum(v[1]) \o <<89>> ELSE <<>>)
          \o (IF 2 \in p THEN DurNum(v[2]) \o <<77>> ELSE <<>>)
          \o (IF 3 \in p THEN DurNum(v[3]) \o <<68>> ELSE <<>>)
          \o (IF p \cap {4, 5, 6} # {} THEN <<84>> ELSE <<>>)
          \o (IF 4 \in p THEN DurNum(v[4]) \o <<72>> ELSE <<>>)
          \o (IF 5 \in p THEN DurNum(v[5]) \o <<77>> ELSE <<>>)
          \o (IF 6 \in p THEN DurNum(v[6]) \o (IF v[7] = "" THEN <<>> ELSE <<46>> \o S(v[7])) \o <<83>> ELSE <<>>)
Durations == { LET body == S(s) \o DurBody(v, p)
                   shown == IF lc THEN LowerSeq(body) ELSE body
               IN Case("Duration", S(IF lc THEN "Duration'" ELSE "duration'") \o shown \o <<Q>>, UpperSeq(body),
                       <<"dur", s, IF 1 \in p THEN v[1] ELSE -1, IF 2 \in p THEN v[2] ELSE -1, IF 3 \in p THEN v[3] ELSE -1,
                         IF 4 \in p THEN v[4] ELSE -1, IF 5 \in p THEN v[5] ELSE -1, IF 6 \in p THEN v[6] ELSE -1,
                         IF 6 \in p THEN S(v[7]) ELSE <<>> >>) :
               s \in Signs, v \in DurVals, p \in Presence, lc \in BOOLEAN }
\* ------------------------------------------------------------- identifiers
IdAtoms == <<"x", "X", "1", "_", ".", "null", "true", "false", "any", "all", "not", "in", "eq", "and", "or", "Q">>
RECURSIVE AtomSeqs(_)
AtomSeqs(k) == IF k = 0 THEN {<<>>} ELSE LET prev == AtomSeqs(k - 1) IN
               prev \cup { Append(q, i) : q \in {r \in prev : Len(r) = k - 1}, i \in 1..Len(IdAtoms) }
RECURSIVE CatAtoms(_)
CatAtoms(q) == IF q = <<>> THEN <<>> ELSE S(IdAtoms[q[1]]) \o CatAtoms(Tail(q))
Keywords == { S(w) : w \in {"null", "true", "false", "any", "all", "not"} }
WellFormedId(w) == /\ Len(w) >= 1 /\ (IsAlpha(w[1]) \/ w[1] = 95) /\ w[Len(w)] # 46
                   /\ \A i \in 1..(Len(w) - 1) : ~(w[i] = 46 /\ w[i + 1] = 46)
                   /\ LowerSeq(w) \notin Keywords
                   \* a dotted name whose first segment is a keyword is outside the modelled fragment
                   /\ \A i \in 1..Len(w) : w[i] = 46 => LowerSeq(SubSeq(w, 1, i - 1)) \notin Keywords
IdWords == { w \in { CatAtoms(q) : q \in AtomSeqs(IdAtomsMax) } : WellFormedId(w) }
IdTree(w) == LET parts == SplitDots(w) IN <<"Id", SubSeq(parts, 1, Len(parts) - 1), parts[Len(parts)]>>
\* identifiers at the length limit (128 word characters; the dots of a namespace do not count)
Rep(c, k) == [i \in 1..k |-> c]
LongIds == { Rep(120, 128), S("ns0.ns1.ns2.") \o Rep(120, 116), S("a.") \o Rep(98, 127), S("n.s.") \o Rep(95, 126) }
Identifiers == { [kind |-> "Id", text |-> w, val |-> w, mean |-> <<"id">>] : w \in IdWords \cup LongIds }

Families == {"Integer", "Float", "Boolean", "Null", "String", "Geography", "GUID", "Date", "Time", "DateTime", "Duration", "Id"}
CasesOf(f) == CASE f = "Integer" -> Integers [] f = "Float" -> Decimals [] f = "Boolean" -> Booleans [] f = "Null" -> Nulls
                [] f = "String" -> Strings [] f = "Geography" -> Geographies [] f = "GUID" -> Guids
                [] f = "Date" -> ValidDates [] f = "Time" -> Times [] f = "DateTime" -> DateTimes
                [] f = "Duration" -> Durations [] f = "Id" -> Identifiers

\* ------------------------------------------------------------- contexts
X == <<"Id", <<>>, S("x")>>   Y == <<"Id", <<>>, S("y")>>   One == <<"Lit", "Integer", S("1")>>
Node(c) == IF c.kind = "Id" THEN IdTree(c.val) ELSE <<"Lit", c.kind, c.val>>
Contexts == {"alone", "rhs", "lhs", "arith", "list2", "list1", "arg", "concat", "lambda"}
\* positions only an identifier can take: the root of a path of 2, 3 and 4 segments, and the owner of a collection
IdContexts == {"path2", "path3", "path4", "coll", "pathcoll", "path3coll"}
V == <<"Id", <<>>, S("v")>>
\* <<text, expected tree, path of the literal in Sub-order child indexes>>
InContext(c, k) ==
  LET L == Node(c)  tx == c.text IN
  CASE k = "alone"  -> <<tx, L, <<>> >>
    [] k = "rhs"    -> <<S("x eq ") \o tx, Cmp("eq", X, L), <<2>> >>
    [] k = "lhs"    -> <<tx \o S(" eq x"), Cmp("eq", L, X), <<1>> >>
    [] k = "arith"  -> <<S("x sub ") \o tx \o S(" add y"), Bin("add", Bin("sub", X, L), Y), <<1, 2>> >>
    [] k = "list2"  -> <<S("x in (") \o tx \o S(", 1)"), Cmp("in", X, Lst(<<L, One>>)), <<2, 1>> >>
    [] k = "list1"  -> <<S("x in (") \o tx \o S(",)"), Cmp("in", X, Lst(<<L>>)), <<2, 1>> >>
    [] k = "arg"    -> <<S("f.g(") \o tx \o S(")"), Call(<<"Id", <<S("f")>>, S("g")>>, <<L>>), <<2>> >>
    [] k = "concat" -> <<S("concat(") \o tx \o S(", x) eq y"), Cmp("eq", Call(<<"Id", <<>>, S("concat")>>, <<L, X>>), Y), <<1, 2>> >>
    [] k = "path2"  -> <<tx \o S("/p eq 1"), Cmp("eq", Attr(L, S("p")), One), <<1, 1>> >>
    [] k = "path3"  -> <<tx \o S("/p/q eq 1"), Cmp("eq", Attr(Attr(L, S("p")), S("q")), One), <<1, 1, 1>> >>
    [] k = "path4"  -> <<S("1 lt ") \o tx \o S("/p/q/r"), Cmp("lt", One, Attr(Attr(Attr(L, S("p")), S("q")), S("r"))), <<2, 1, 1, 1>> >>
    [] k = "coll"   -> <<tx \o S("/any(v: v eq 1)"), Coll(L, "any", Lam(V, Cmp("eq", V, One))), <<1>> >>
    [] k = "pathcoll" -> <<tx \o S("/p/all(v: v eq 1)"), Coll(Attr(L, S("p")), "all", Lam(V, Cmp("eq", V, One))), <<1, 1>> >>
    [] k = "path3coll" -> <<tx \o S("/p/q/any(v: v eq 1)"), Coll(Attr(Attr(L, S("p")), S("q")), "any", Lam(V, Cmp("eq", V, One))), <<1, 1, 1>> >>
    [] k = "lambda" -> <<S("y/any(v: v eq ") \o tx \o S(")"),
                         Coll(Y, "any", Lam(<<"Id", <<>>, S("v")>>, Cmp("eq", <<"Id", <<>>, S("v")>>, L))), <<2, 2, 2>> >>

NoLit == [kind |-> "none"]
Init == fam \in (IF OnlyFam = "" THEN Families ELSE {OnlyFam}) /\ lit = NoLit /\ ctxt = "none"
PickLit == /\ lit = NoLit /\ \E c \in CasesOf(fam) : lit' = c
           /\ UNCHANGED <<fam, ctxt>>
PickCtx == /\ lit # NoLit /\ ctxt = "none" /\ \E k \in Contexts \cup (IF lit.kind = "Id" THEN IdContexts ELSE {}) : ctxt' = k
           /\ UNCHANGED <<fam, lit>>
Next == PickLit \/ PickCtx
IsCase == ctxt # "none"
TheCase == InContext(lit, ctxt)

\* the independently written lexer/parser spec reads every generated case as the generator intends
SpecReadsAsIntended == IsCase => ParseText(TheCase[1]) = <<"ok", TheCase[2]>>

Export == PrintT(ToJson(IF IsCase
            THEN [k |-> "case", kind |-> lit.kind, text |-> TheCase[1], tree |-> TheCase[2], path |-> TheCase[3],
                  mean |-> lit.mean, ctxt |-> ctxt]
            ELSE [k |-> "partial"]))
=============================================================================
