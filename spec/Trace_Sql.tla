----------------------------- MODULE Trace_Sql -----------------------------
(***************************************************************************)
(* Trace validation of SQL text emitted by the dialects, with the SqlLex   *)
(* automaton.  Cases (JSON, env TRACE_FILE): records                       *)
(*   [id, kind |-> "pair", vary |-> "STR" | "QID", o1, o2 : code points]   *)
(* Verdict for a pair (non-interference, C07):                             *)
(*   ok | unterminated | hostile-token | skeleton-differs | content-lost   *)
(***************************************************************************)
EXTENDS SqlLex, Json, IOUtils, TLC
Cases == JsonDeserialize(IOEnv.TRACE_FILE)
VARIABLES lo, hi
Init == lo = 1 /\ hi = Len(Cases)
Split == /\ lo < hi
         /\ LET mid == (lo + hi) \div 2 IN \/ (lo' = lo /\ hi' = mid) \/ (lo' = mid + 1 /\ hi' = hi)
Next == Split

\* drop every  ESCAPE '\'  clause (the fixed escape declaration the dialects append to a LIKE pattern that
\* needed escaping)
RECURSIVE StripEscape(_)
StripEscape(ts) == IF Len(ts) < 2 THEN ts
                   ELSE IF ts[1] = <<"WORD", StrCps("ESCAPE")>> /\ ts[2] = <<"STR", <<92>>>> THEN StripEscape(SubSeq(ts, 3, Len(ts)))
                   ELSE <<ts[1]>> \o StripEscape(Tail(ts))
PairVerdict(c) ==
  LET r1 == SqlLexRun(c.o1)  r2 == SqlLexRun(c.o2)
      t1 == r1.toks  t2 == r2.toks IN
  IF r1.mode \notin {"N"} \/ r2.mode \notin {"N"} THEN "unterminated"
  ELSE IF Hostile(t1) \/ Hostile(t2) THEN "hostile-token"
  ELSE IF Skeleton(t1) # Skeleton(t2) THEN
       (IF Skeleton(StripEscape(t1)) = Skeleton(StripEscape(t2))
           /\ \A i \in 1..Len(StripEscape(t1)) : StripEscape(t1)[i] # StripEscape(t2)[i] => StripEscape(t1)[i][1] = c.vary
        THEN "escape-clause-only" ELSE "skeleton-differs")
  ELSE IF \E i \in 1..Len(t1) : t1[i] # t2[i] /\ t1[i][1] # c.vary THEN "foreign-token-differs"
  ELSE IF c.o1 # c.o2 /\ \A i \in 1..Len(t1) : t1[i] = t2[i] THEN "content-lost"
  ELSE IF c.o1 = c.o2 THEN "content-lost"
  ELSE "ok"
\* kind "same": two outputs that must mean the same (C19: canonical spelling vs re-laid-out / re-cased spelling):
\* equal token sequences, where number and word tokens are compared case-insensitively and string-literal and
\* quoted-identifier tokens exactly
Fold(ts) == [i \in 1..Len(ts) |-> IF ts[i][1] = "NUM" THEN <<"NUM", UpperSeq(ts[i][2])>> ELSE ts[i]]
SameVerdict(c) ==
  LET r1 == SqlLexRun(c.o1)  r2 == SqlLexRun(c.o2) IN
  IF r1.mode # "N" \/ r2.mode # "N" THEN "unterminated"
  ELSE IF Fold(r1.toks) = Fold(r2.toks) THEN "ok"
  ELSE IF Skeleton(r1.toks) = Skeleton(r2.toks) THEN "literal-spelling-differs" ELSE "structure-differs"
Verdict == (lo = hi /\ Len(Cases) > 0) =>
              PrintT(ToJson([k |-> "verdict", id |-> Cases[lo].id,
                             v |-> IF Cases[lo].kind = "same" THEN SameVerdict(Cases[lo]) ELSE PairVerdict(Cases[lo])]))
=============================================================================
