INIT Init
NEXT Next
CONSTANTS
  MaxOps = 2
  Profile = "fns"
  Backend = "sqlite"
  Deviations = {}
  LongN = 1201
  CpsMode = FALSE
INVARIANT Export09
CHECK_DEADLOCK FALSE
