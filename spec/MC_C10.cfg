INIT Init
NEXT Next
CONSTANTS
  K = 2
  Mode = "atoms"
  MaxOps = 2
  CpsMode = TRUE
INVARIANT DiagAgreesWithParse
INVARIANT Export
CHECK_DEADLOCK FALSE
