INIT Init
NEXT Next
CONSTANTS
  CpsMode = TRUE
INVARIANT Verdict
CHECK_DEADLOCK FALSE
