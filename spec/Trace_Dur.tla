------------------------------ MODULE Trace_Dur ------------------------------
(***************************************************************************)
(* The SQL a dialect emits for a duration literal, read back with SqlRead  *)
(* and compared with the literal's structured meaning (sign and the        *)
(* present components with their digit strings).                           *)
(* Cases: [id, out (SQL of  du eq duration'..', code points),              *)
(*         mean |-> <<"dur", sign, Y, Mo, D, H, Mi, S, frac>>] (-1 absent) *)
(* Verdict: ok | not-wellformed | not-a-comparison | sign-differs |        *)
(*          components-differ                                              *)
(***************************************************************************)
EXTENDS SqlRead, Json, IOUtils, TLC, FiniteSets
Cases == JsonDeserialize(IOEnv.TRACE_FILE)
VARIABLES lo, hi
Init == lo = 1 /\ hi = Len(Cases)
Split == /\ lo < hi
         /\ LET mid == (lo + hi) \div 2 IN \/ (lo' = lo /\ hi' = mid) \/ (lo' = mid + 1 /\ hi' = hi)
Next == Split

Units == <<"YEAR", "MONTH", "DAY", "HOUR", "MINUTE", "SECOND">>
Expected(m) == { <<StrCps(Units[i]), IF i = 6 /\ Len(m[9]) > 0 THEN NatCps(m[2 + i]) \o <<46>> \o m[9] ELSE NatCps(m[2 + i])>> :
                   i \in { j \in 1..6 : m[2 + j] >= 0 } }
RECURSIVE Terms(_)
Terms(x) == IF x[1] = "op" /\ x[2] = "ADD" THEN Terms(x[3]) \o Terms(x[4]) ELSE <<x>>
Body(x) == IF x[1] = "un" THEN x[3] ELSE x
IsNeg(x) == x[1] = "un" /\ x[2] = "NEG"
VerdictOf(c) ==
  LET r == ReadSqlText(c.out) IN
  IF r[1] # "ok" THEN "not-wellformed"
  ELSE IF ~(r[2][1] = "op" /\ r[2][2] = "EQ") THEN "not-a-comparison"
  ELSE LET d == r[2][4]  ts == Terms(Body(d)) IN
       IF \E i \in 1..Len(ts) : ~(ts[i][1] = "typed" /\ ts[i][2] = StrCps("INTERVAL")) THEN "components-differ"
       ELSE IF IsNeg(d) # (c.mean[2] = "-") THEN "sign-differs"
       ELSE IF { <<ts[i][4], ts[i][3]>> : i \in 1..Len(ts) } # Expected(c.mean) \/ Len(ts) # Cardinality(Expected(c.mean))
            THEN "components-differ" ELSE "ok"
Verdict == (lo = hi /\ Len(Cases) > 0) =>
              PrintT(ToJson([k |-> "verdict", id |-> Cases[lo].id, v |-> VerdictOf(Cases[lo])]))
=============================================================================
