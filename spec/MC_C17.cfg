INIT Init
NEXT Next
CONSTANTS
  MaxOps = 1
  CpsMode = FALSE
INVARIANT IdentityWhenAbsent
INVARIANT Export
CHECK_DEADLOCK FALSE
