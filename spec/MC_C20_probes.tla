--------------------------- MODULE MC_C20_probes ---------------------------
(* exports the probe table of MC_C20 with the specification's outcome for each probe *)
EXTENDS MC_C20
ProbeInit == calls = <<>> /\ active = 0 /\ sched = <<>> /\ last = [x \in Insts |-> "fresh"] /\ switches = 0
ProbeNext == UNCHANGED <<calls, active, sched, last, switches>>
ExportProbes == PrintT(ToJson([k |-> "probes", texts |-> ProbeCps, outcomes |-> Outcome, pulls |-> NPulls]))
=============================================================================
