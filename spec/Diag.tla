-------------------------------- MODULE Diag --------------------------------
(***************************************************************************)
(* What exactly happens on an input that is NOT accepted: which error is   *)
(* raised and where.  The lexer is a lazy generator pulled by the parser,  *)
(* the parser is table driven with one token of lookahead and no default   *)
(* reductions, and the function table is consulted in the reduction of a   *)
(* call.  Hence events happen strictly in input order:                     *)
(*   - token i is lexed only when the parser asks for it (a tokenising     *)
(*     error behind a syntax error is never reached);                      *)
(*   - with token i as lookahead the parser reduces what that lookahead    *)
(*     allows - a call is reduced (and its name and argument count are     *)
(*     checked) only if the token after its ")" is one that may follow a   *)
(*     call at all: a binary operator, ")", ",", whitespace or the end;    *)
(*   - then token i is shifted, or it is the offending token of a syntax   *)
(*     error.                                                              *)
(* DiagText(x) = <<"ok", tree>> | <<"token", p>> | <<"syntax", p>>         *)
(*             | <<"unknown", name>> | <<"argc", name, min, max, n>>       *)
(*             | <<"noverdict">>                                           *)
(* p: 0-based code-point offset of the offending token (-1: end of input). *)
(***************************************************************************)
EXTENDS Lex

RECURSIVE LexPos(_, _, _, _)
LexPos(x, i, acc, starts) ==
  IF i > Len(x) THEN [st |-> "ok", toks |-> acc, starts |-> starts, pos |-> Len(x) + 1]
  ELSE LET r == LexOne(x, i) IN
       IF r = <<"lexerror">> THEN [st |-> "lexerror", toks |-> acc, starts |-> starts, pos |-> i]
       ELSE IF r = <<"unknown">> THEN [st |-> "unknown", toks |-> acc, starts |-> starts, pos |-> i]
       ELSE LexPos(x, r[2], Append(acc, r[1]), Append(starts, i))

\* indexes (into toks) of the non-whitespace tokens
Kept(toks) == SelectSeq([i \in 1..Len(toks) |-> i], LAMBDA i : toks[i][1] # "ws")
WsBefore(toks, i) == i > 1 /\ toks[i - 1][1] = "ws"
\* the stream the parser machine reads: whitespace removed, a token that followed whitespace marked, and an explicit
\* terminal: the end of the input, or "poison" where the lexer fails
Stream(l) ==
  LET ks == Kept(l.toks)
      body == [j \in 1..Len(ks) |-> IF WsBefore(l.toks, ks[j]) THEN Append(l.toks[ks[j]], "w") ELSE l.toks[ks[j]]]
      endsWs == Len(l.toks) > 0 /\ l.toks[Len(l.toks)][1] = "ws"
      term == IF l.st = "ok" THEN <<"eof">> ELSE <<"poison">>
  IN Append(body, IF endsWs THEN Append(term, "w") ELSE term)

\* ---- misplaced whitespace: the first whitespace token that stands where the grammar has none
Depth(toks, i) == LET F[k \in 0..(i - 1)] == IF k = 0 THEN 0
                                             ELSE F[k - 1] + (IF toks[k][1] = "(" THEN 1 ELSE IF toks[k][1] = ")" THEN -1 ELSE 0)
                  IN F[i - 1]
\* verdict on the whitespace token at position i of l.toks:
\*   "ok"      it stands where the grammar has optional whitespace
\*   "at-ws"   the parser cannot take it at all: it is the offending token
\*   "at-next" the parser takes it as optional whitespace before ")" "," ":" but something else follows (or: "f( )")
WsVerdict(l, i) ==
  LET toks == l.toks
      prev == IF i > 1 THEN toks[i - 1] ELSE <<"bof">>
      next == IF i < Len(toks) THEN toks[i + 1] ELSE IF l.st = "ok" THEN <<"eof">> ELSE <<"poison">>
      afterOpener == prev[1] \in {"(", ",", ":", "neg"}
      afterOperand == prev[1] \in {"id", "lit", ")"} /\ Depth(toks, i) > 0 IN
  IF afterOpener THEN (IF prev[1] = "(" /\ i > 2 /\ toks[i - 2][1] = "id" /\ next[1] = ")" THEN "at-next" ELSE "ok")
  ELSE IF afterOperand THEN (IF next[1] \in {")", ",", ":", "poison"} THEN "ok" ELSE "at-next")
  ELSE "at-ws"
BadWs(l) == { i \in 1..Len(l.toks) : l.toks[i][1] = "ws" /\ WsVerdict(l, i) # "ok" }
\* number of kept tokens before position i of toks
KeptBefore(toks, i) == Len(SelectSeq([k \in 1..(i - 1) |-> k], LAMBDA k : toks[k][1] # "ws"))

DiagText(x) ==
  LET l == LexPos(x, 1, <<>>, <<>>) IN
  IF l.st = "unknown" THEN <<"noverdict">>
  ELSE
  LET inp == Stream(l)
      n == Len(inp) - 1                         \* kept tokens; inp[n + 1] is the terminal
      ks == Kept(l.toks)
      r == Run(PInit, inp)
      bad == BadWs(l)
      fb == IF bad = {} THEN 0 ELSE CHOOSE i \in bad : \A j \in bad : i <= j     \* the first misplaced whitespace token
      w == IF fb = 0 THEN 0 ELSE KeptBefore(l.toks, fb) + 1                        \* kept index of the token after it
      startOf(e) == IF e <= n THEN l.starts[ks[e]] - 1 ELSE IF l.st = "ok" THEN -1 ELSE l.pos - 1
      wsErr == IF WsVerdict(l, fb) = "at-ws" THEN <<"syntax", l.starts[fb] - 1>> ELSE <<"syntax", startOf(w)>>
  IN
  \* a function error arises when the token after the call's ")" (kept index r.pos + 1) is looked at
  CASE r.status = "function" -> IF w # 0 /\ w <= r.pos THEN wsErr ELSE r.err
    [] r.status = "token"    -> IF w # 0 /\ w <= r.pos THEN wsErr ELSE <<"token", l.pos - 1>>
    [] r.status = "accept"   -> IF w # 0 THEN wsErr ELSE <<"ok", r.vals[1]>>
    [] r.status = "syntax"   ->
         IF w # 0 /\ w <= r.errAt THEN wsErr
         ELSE IF r.errAt <= n THEN <<"syntax", startOf(r.errAt)>>
         ELSE IF l.st = "lexerror" THEN <<"token", l.pos - 1>>
         ELSE <<"syntax", -1>>
=============================================================================
