------------------------------ MODULE MC_C13 ------------------------------
(***************************************************************************)
(* C13 generator: trees in the image of the parser - every literal kind,   *)
(* adversarial string contents, singleton lists, right-nested operators of *)
(* equal precedence, prefix operators, namespaces, paths, lambdas, named   *)
(* parameters.  Profile "ops": all operators over few atoms; "atoms": all  *)
(* atoms in every operand position of one operator of each class.          *)
(* Model-level theorem checked here: reading the *text* of the reference   *)
(* rendering with the spec lexer+parser gives the tree back.               *)
(***************************************************************************)
EXTENDS Lex, Json
CONSTANTS MaxOps, Profile
VARIABLES t, n

a == Id0("a")  one == IntL(1)
E == Hole("e")
Q == 39
LitAtoms == { NullL, IntL(1), IntL(-2), IntL(0), Lit("Float", "1.5"), Lit("Float", "-2e3"), Lit("Float", "3.25E-2"),
              BoolL("true"), BoolL("false"),
              StrL(<<>>), StrL(<<111, Q, 114>>), StrL(<<Q>>), StrL(<<Q, Q>>), StrL(<<97, 32, 37, 95, 92, 34>>), StrL(<<233, 128165>>),
              Lit("Geography", "POINT(1 2)"), Lit("Geography", "POINT(1 2) -- O''Hare"), Lit("Date", "2020-02-29"), Lit("Time", "23:59:59.123"),
              Lit("DateTime", "2020-02-29T12:30:00Z"), Lit("DateTime", "1999-12-31T23:59+01:00"),
              \* the lexer is case-insensitive and keeps the literal verbatim: lower-case designators are in the parser's image
              Lit("DateTime", "2020-02-29t12:30:00z"), Lit("DateTime", "2021-03-04T05:06z"),
              Lit("Duration", "P1DT2H"), Lit("Duration", "-P1Y2M3DT4H5M6.5S"),
              Lit("GUID", "01234567-89ab-cdef-0123-456789abcdef") }
IdAtoms == { a, Id(<<"ns">>, "b"), Id(<<"x", "y">>, "z"), Attr(a, "p"), Attr(Attr(a, "p"), "q"),
             Attr(Id(<<"ns">>, "b"), "p"), Attr(Attr(Id(<<"ns">>, "b"), "p"), "q"), Coll(Attr(Attr(Id(<<"x", "y">>, "z"), "p"), "q"), "any", None),
             Coll(Id0("c"), "any", None), Coll(Attr(a, "cs"), "any", None), Call(Id0("now"), <<>>) }
Atoms == IF Profile = "ops" THEN {a, one, StrL(<<111, Q, 114>>)} ELSE LitAtoms \cup IdAtoms
Brackets == { Call(Id0("tolower"), <<E>>), Call(Id0("concat"), <<E, one>>),
              Call(Id(<<"f">>, "g"), <<Named(Id0("k"), E)>>),
              Call(Id(<<"f">>, "g"), <<Named(Id0("k"), one), Named(Id0("m"), E)>>),
              \* named parameters whose names are not in alphabetical order
              Call(Id(<<"f">>, "g"), <<Named(Id0("zeta"), one), Named(Id0("alpha"), E), Named(Id0("mid"), a)>>),
              Call(Id(<<"geo">>, "length"), <<E>>),
              Lst(<<E>>), Lst(<<E, one>>), Lst(<<Lst(<<E>>)>>),
              Coll(Id0("c"), "any", Lam(Id0("x"), E)), Coll(Attr(a, "q"), "all", Lam(Id0("x"), E)) }
OpsUsed == IF Profile = "ops" THEN BinOps \ {"in"} ELSE {"or", "eq", "lt", "add", "mul"}
ListRHS == IF Profile = "ops" THEN { Lst(<<one>>) } ELSE { Lst(<<one>>), Lst(<<a, one>>) }
\* operands that are grouped on BOTH sides (the rendering starts with "(" and ends with ")" without being one group)
BothSides == { Bool("and", Bool("or", E, one), Bool("or", one, a)), Bin("mul", Bin("add", E, one), Bin("add", one, a)),
               Bin("sub", Bin("add", E, one), Call(Id0("length"), <<a>>)), Bin("mod", Bin("sub", a, E), Lst(<<one, a>>)) }
Expand(s) == { <<0, x>> : x \in Atoms }
       \cup { <<1, x>> : x \in BothSides }
       \cup { <<1, BinNode(o, E, E)>> : o \in OpsUsed }
       \cup { <<1, Cmp("in", E, r)>> : r \in ListRHS }
       \cup { <<1, Un(o, E)>> : o \in PreOps }
       \cup { <<1, x>> : x \in Brackets }

Init == t = E /\ n = 0
Fill == LET h == FirstHole(t) IN
        /\ h # NoHole
        /\ \E e \in Expand(h[2]) : n + e[1] <= MaxOps /\ t' = FillFirst(t, e[2]) /\ n' = n + e[1]
Next == Fill
Complete == ~HasHole(t)

\* the spec reads back its own minimal rendering, at token level (string mode is not available here:
\* CpsMode = TRUE, so the tree is converted first) and at text level
TextRoundTrip == Complete =>
   ParseText(TextOf(Pr(t, "min"), SP)) = <<"ok", TreeCps(t)>>
TextRoundTripFull == Complete =>
   ParseText(TextOf(Pr(t, "fullbws"), SP)) = <<"ok", TreeCps(t)>>

Export == PrintT(ToJson(IF Complete THEN [k |-> "case", tree |-> t, nops |-> n] ELSE [k |-> "partial"]))
=============================================================================
