----------------------------- MODULE Trace_Text -----------------------------
(***************************************************************************)
(* Trace validation of texts observed at the implementation's boundary.    *)
(* Cases (JSON, env TRACE_FILE): a sequence of records                     *)
(*    [id |-> n, text |-> code points, tree |-> tagged-tuple tree]         *)
(* where `text` was emitted (round-trip printer) or accepted (parser) by    *)
(* the real code and `tree` is the AST it belongs to, names as strings.    *)
(* The spec reads the text with its own lexer + parser machine; the        *)
(* verdict names the failing clause:                                       *)
(*    ok | lexerror@i | syntax | function | noverdict | tree-mismatch      *)
(* The batch is split binary-tree fashion so all workers share it.         *)
(***************************************************************************)
EXTENDS Lex, Json, IOUtils
Cases == JsonDeserialize(IOEnv.TRACE_FILE)
VARIABLES lo, hi

Init == lo = 1 /\ hi = Len(Cases)
Split == /\ lo < hi
         /\ LET mid == (lo + hi) \div 2 IN
            \/ (lo' = lo /\ hi' = mid)
            \/ (lo' = mid + 1 /\ hi' = hi)
Next == Split

VerdictOf(c) ==
  LET l == LexText(c.text) IN
  IF l.st = "unknown" THEN "noverdict"
  ELSE IF l.st = "lexerror" THEN "lexerror"
  ELSE LET r == ParseTokens(l.toks) IN
       IF r[1] = "syntax" THEN "syntax"
       ELSE IF r[1] # "ok" THEN "function"
       ELSE IF r[2] = TreeCps(c.tree) THEN "ok" ELSE "tree-mismatch"

Verdict == (lo = hi /\ Len(Cases) > 0) =>
              PrintT(ToJson([k |-> "verdict", id |-> Cases[lo].id, v |-> VerdictOf(Cases[lo])]))
=============================================================================
