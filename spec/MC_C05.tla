------------------------------ MODULE MC_C05 ------------------------------
(***************************************************************************)
(* C05 generator: every expression tree with at most MaxOps operator /     *)
(* bracket nodes over a small operand alphabet, as a derivation machine    *)
(* (leftmost hole filling).  Every complete tree is a test case: it is     *)
(* exported with the token/text renderings of the reference printers, and  *)
(* the model-level theorems  SpecParse(Print*(t)) = t  are checked here.   *)
(***************************************************************************)
EXTENDS OData, Json
CONSTANTS MaxOps, Wide, Paths      \* Paths: the long-path atoms (a separate, shallow run)
VARIABLES t, n

a == Id0("a")  b == Id0("b")  one == IntL(1)
E == Hole("e")
\* (the same three-segment path under a namespaced and under a plain root: two different operands)
Atoms == IF Wide THEN {a, b, one, Attr(a, "p"), StrL(<<120>>)}
                      \cup (IF Paths THEN {Attr(Attr(Id(<<"ns">>, "a"), "p"), "q"), Attr(Attr(a, "p"), "q"), Attr(Attr(Id(<<"ns">>, "b"), "p"), "q")} ELSE {})
         ELSE {a, b}
\* bracketing constructs reset precedence: their holes are ordinary expression holes
Brackets == IF Wide
            THEN { Call(Id0("concat"), <<E, b>>), Call(Id(<<"f">>, "g"), <<E>>), Lst(<<E>>), Lst(<<a, E>>),
                   Coll(Id0("c"), "any", Lam(Id0("x"), E)), Coll(Attr(a, "q"), "all", Lam(Id0("x"), E)) }
            ELSE {}
ListRHS == IF Wide THEN { Lst(<<one>>), Lst(<<a, b>>), Lst(<<one, one>>), Lst(<<a, b, a>>) } ELSE { Lst(<<a>>) }
Expand(s) == { <<0, x>> : x \in Atoms }
       \cup { <<1, BinNode(o, E, E)>> : o \in BinOps \ {"in"} }
       \cup { <<1, Cmp("in", E, r)>> : r \in ListRHS }
       \cup { <<1, Un(o, E)>> : o \in PreOps }
       \cup { <<1, x>> : x \in Brackets }

Init == t = E /\ n = 0
Fill == LET h == FirstHole(t) IN
        /\ h # NoHole
        /\ \E e \in Expand(h[2]) : n + e[1] <= MaxOps /\ t' = FillFirst(t, e[2]) /\ n' = n + e[1]
Next == Fill
Complete == ~HasHole(t)

RoundTripMin  == Complete => SpecParse(Pr(t, "min")) = t
RoundTripFull == Complete => SpecParse(Pr(t, "full")) = t
RoundTripBws  == Complete => SpecParse(Pr(t, "bws")) = t
RoundTripFullBws == Complete => SpecParse(Pr(t, "fullbws")) = t

Export == PrintT(ToJson(IF Complete
            THEN [k |-> "case", tree |-> t, nops |-> n,
                  min |-> Spell(Pr(t, "min"), " "), full |-> Spell(Pr(t, "full"), " "),
                  bws |-> Spell(Pr(t, "bws"), " "), fullbws |-> Spell(Pr(t, "fullbws"), " ")]
            ELSE [k |-> "partial"]))
=============================================================================
