INIT Init
NEXT Next
CONSTANTS
  MaxOps = 1
  Profile = "atoms"
  CpsMode = TRUE
INVARIANT TextRoundTrip
INVARIANT TextRoundTripFull
INVARIANT Export
CHECK_DEADLOCK FALSE
