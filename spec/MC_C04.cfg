INIT Init
NEXT Next
CONSTANTS
  MaxOps = 1
  Root = "Post"
  Inst = 0
  Deviations = {}
  CpsMode = FALSE
INVARIANT Export
CHECK_DEADLOCK FALSE
