INIT Init
NEXT Next
CONSTANTS
  MaxOps = 2
  CpsMode = FALSE
  Wide = TRUE
  Paths = FALSE
INVARIANT RoundTripMin
INVARIANT RoundTripFull
INVARIANT RoundTripBws
INVARIANT RoundTripFullBws
INVARIANT Export
CHECK_DEADLOCK FALSE
