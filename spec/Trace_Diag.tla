----------------------------- MODULE Trace_Diag -----------------------------
(***************************************************************************)
(* Trace validation of the real parser's outcome - AST, or which error at  *)
(* which token - against Diag.tla, for inputs the harness produced itself  *)
(* (random text, arbitrary Unicode, long inputs).                          *)
(* Cases (JSON, env TRACE_FILE): records [id, text (code points),          *)
(*   real: <<"ok">> | <<"syntax", p>> | <<"token", p>> |                   *)
(*         <<"unknown", name>> | <<"argc", name, min, max, n>>]            *)
(* Verdict: ok | noverdict | differs (with the spec's diagnosis)           *)
(***************************************************************************)
EXTENDS Diag, Json, IOUtils
Cases == JsonDeserialize(IOEnv.TRACE_FILE)
VARIABLES lo, hi
Init == lo = 1 /\ hi = Len(Cases)
Split == /\ lo < hi
         /\ LET mid == (lo + hi) \div 2 IN \/ (lo' = lo /\ hi' = mid) \/ (lo' = mid + 1 /\ hi' = hi)
Next == Split
SpecOf(c) == LET d == DiagText(c.text) IN IF d[1] = "ok" THEN <<"ok">> ELSE d
VerdictOf(c) == LET s == SpecOf(c) IN
                IF s[1] = "noverdict" THEN <<"noverdict", s>> ELSE IF s = c.real THEN <<"ok", s>> ELSE <<"differs", s>>
Verdict == (lo = hi /\ Len(Cases) > 0) =>
              LET v == VerdictOf(Cases[lo]) IN PrintT(ToJson([k |-> "verdict", id |-> Cases[lo].id, v |-> v[1], spec |-> v[2]]))
=============================================================================
