INIT Init
NEXT Next
CONSTANTS
  IdAtomsMax = 2
  OnlyFam = ""
  CpsMode = TRUE
INVARIANT SpecReadsAsIntended
INVARIANT Export
CHECK_DEADLOCK FALSE
