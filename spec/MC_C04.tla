------------------------------ MODULE MC_C04 ------------------------------
(***************************************************************************)
(* C04: relational filters (to-one paths through nullable keys, any/all    *)
(* lambdas, nesting, and/or/not) over a database instance that is          *)
(* shape-complete for Post.comments: the 20 posts own every multiset of    *)
(* 0..3 comments over k in {1,2,3}; authors (foreign key incl. NULL),      *)
(* organisations (second hop incl. NULL) and editors (many-to-many with    *)
(* shared children, empty and full sets) vary with the post number.        *)
(* Expected result: Rel!SelectedParents.                                   *)
(***************************************************************************)
EXTENDS Lex, Rel, Json
CONSTANTS MaxOps, Root, Inst
VARIABLES t, n

S1(x) == SV(StrCps(x))
Shapes == << <<>>, <<1>>, <<2>>, <<3>>, <<1, 1>>, <<1, 2>>, <<1, 3>>, <<2, 2>>, <<2, 3>>, <<3, 3>>,
             <<1, 1, 1>>, <<1, 1, 2>>, <<1, 1, 3>>, <<1, 2, 2>>, <<1, 2, 3>>, <<1, 3, 3>>, <<2, 2, 2>>, <<2, 2, 3>>, <<2, 3, 3>>, <<3, 3, 3>> >>
Orgs == { [id |-> 1, name |-> S1("x"), k |-> IV(1), lead |-> IV(2)], [id |-> 2, name |-> NULL, k |-> NULL, lead |-> NULL] }
PostInfos == { [id |-> 1, tag |-> S1("p")], [id |-> 2, tag |-> NULL] }
AuthorInfos == { [id |-> 1, tag |-> S1("a")], [id |-> 2, tag |-> S1("p")] }
Authors == { [id |-> 1, name |-> S1("ann"), age |-> IV(30), rank |-> IV(1), org |-> IV(1), info |-> IV(1), home |-> IV(2), boss |-> IV(2)],
             [id |-> 2, name |-> S1("bob"), age |-> NULL, rank |-> IV(2), org |-> IV(2), info |-> NULL, home |-> IV(1), boss |-> IV(3)],
             [id |-> 3, name |-> NULL, age |-> IV(5), rank |-> IV(3), org |-> NULL, info |-> IV(2), home |-> IV(1), boss |-> NULL],
             [id |-> 4, name |-> S1("cy"), age |-> IV(1), rank |-> IV(1), org |-> IV(1), info |-> IV(2), home |-> IV(1), boss |-> IV(1)],
             [id |-> 5, name |-> S1("ann"), age |-> IV(0), rank |-> IV(2), org |-> IV(2), info |-> IV(1), home |-> IV(2), boss |-> IV(4)] }
Titles == <<S1("a"), S1("b"), NULL, S1("a%")>>
Ns == <<IV(1), IV(-3), NULL, IV(0), IV(2)>>
AuthorOf(i) == LET r == (i + Inst) % 7 IN IF r = 1 \/ r = 6 THEN NULL ELSE IV(IF r = 0 THEN 1 ELSE r - 1)
InfoOf(i) == IF i % 3 = 0 THEN NULL ELSE IV(i % 3)
Posts == { [id |-> i, title |-> Titles[1 + (i % 4)], n |-> Ns[1 + ((i + Inst) % 5)], author |-> AuthorOf(i), info |-> InfoOf(i)] : i \in 1..20 }
CommentId(i, j) == 3 * (i - 1) + j
Comments == { [id |-> CommentId(i, j), text |-> IF j % 2 = 0 THEN S1("x") ELSE S1("y"), k |-> IV(Shapes[i][j]), post |-> IV(i)] :
                <<i, j>> \in { p \in (1..20) \X (1..3) : p[2] <= Len(Shapes[p[1]]) } }
            \cup { [id |-> 61, text |-> S1("x"), k |-> IV(1), post |-> NULL], [id |-> 62, text |-> NULL, k |-> IV(3), post |-> NULL] }
Editors == { <<i, a>> \in (1..20) \X (1..5) : ((i + Inst) * (a + 1)) % 3 = 0 /\ i % 5 # 0 } \cup { <<10, a>> : a \in 1..5 }
DB == [Org |-> Orgs, Author |-> Authors, Post |-> Posts, Comment |-> Comments, editors |-> Editors,
       PostInfo |-> PostInfos, AuthorInfo |-> AuthorInfos]

P(root, segs) == LET F[i \in 0..Len(segs)] == IF i = 0 THEN Id0(root) ELSE Attr(F[i - 1], segs[i]) IN F[Len(segs)]
HB == Hole("B")  HC == Hole("C")  HE == Hole("E")  HP == Hole("P")
SL(x) == StrL(StrCps(x))
cV == Id0("c")  eV == Id0("e")  pV == Id0("p")
PostAtoms == { Cmp("eq", Id0("n"), IntL(1)), Cmp("eq", Id0("title"), SL("a")), Cmp("eq", Id0("n"), NullL),
               Cmp("eq", P("author", <<"name">>), SL("ann")), Cmp("eq", P("author", <<"name">>), NullL),
               Cmp("ne", P("author", <<"name">>), NullL), Cmp("gt", P("author", <<"age">>), IntL(1)),
               Cmp("eq", P("author", <<"org", "name">>), SL("x")), Cmp("eq", P("author", <<"org", "name">>), NullL),
               Cmp("ne", P("author", <<"org", "k">>), IntL(1)), Cmp("le", P("author", <<"rank">>), Id0("n")),
               Cmp("eq", P("info", <<"tag">>), SL("p")), Cmp("eq", P("author", <<"info", "tag">>), SL("p")),
               \* a mandatory (NOT NULL) key behind a nullable one: a post without author has no home either
               Cmp("eq", P("author", <<"home", "name">>), NullL), Cmp("eq", P("author", <<"home", "k">>), IntL(1)),
               Bool("or", Cmp("eq", P("author", <<"home", "name">>), SL("x")), Cmp("eq", Id0("n"), IntL(1))),
               Cmp("eq", P("author", <<"org", "lead", "name">>), P("author", <<"name">>)),
               Cmp("eq", P("author", <<"boss">>), IntL(2)), Cmp("eq", P("author", <<"org">>), NullL), Cmp("eq", P("author", <<"boss", "org">>), IntL(1)),
               Cmp("eq", P("author", <<"boss", "boss", "name">>), SL("ann")), Cmp("ne", P("author", <<"boss", "rank">>), P("author", <<"rank">>)),
               Bool("and", Cmp("eq", P("info", <<"tag">>), SL("p")), Cmp("ne", P("author", <<"info", "tag">>), SL("p"))),
               Coll(Id0("comments"), "any", None), Coll(Id0("authors"), "any", None), Coll(P("author", <<"posts">>), "any", None),
               Coll(P("author", <<"org", "authors">>), "any", Lam(eV, Cmp("gt", P("e", <<"rank">>), IntL(2)))) }
\* simple lambdas as atoms, so that sibling lambdas over the same collection meet at the smallest bound
\* nested lambdas that bind the same variable name twice
SameNameAtomsPost == { Coll(Id0("authors"), "any", Lam(eV, Coll(P("e", <<"posts">>), "any", Lam(eV, Cmp("gt", P("e", <<"id">>), IntL(10)))))),
                       Coll(P("author", <<"posts">>), "all", Lam(pV, Coll(P("p", <<"comments">>), "any", Lam(pV, Cmp("ge", P("p", <<"k">>), IntL(2)))))) }
SameNameAtomsAuthor == { Coll(Id0("posts"), "any", Lam(pV, Coll(P("p", <<"comments">>), "any", Lam(pV, Cmp("gt", P("p", <<"k">>), IntL(1)))))),
                         Coll(Id0("edited"), "all", Lam(pV, Coll(P("p", <<"authors">>), "any", Lam(pV, Cmp("gt", P("p", <<"rank">>), IntL(1)))))) }
PostLambdaAtoms == { Coll(Id0("comments"), q, Lam(cV, Cmp(o, P("c", <<"k">>), IntL(k)))) : q \in {"any", "all"},
                                                 <<o, k>> \in {<<"gt", 1>>, <<"lt", 3>>, <<"ge", 2>>, <<"le", 2>>, <<"ne", 2>>} }
              \cup { Coll(Id0("authors"), q, Lam(eV, Cmp(o, P("e", <<"rank">>), IntL(k)))) : q \in {"any", "all"}, <<o, k>> \in {<<"gt", 1>>, <<"lt", 3>>} }
OrgAtoms == { Cmp("eq", Id0("name"), NullL), Cmp("eq", Id0("k"), IntL(1)), Coll(Id0("authors"), "any", None),
              Coll(Id0("authors"), "any", Lam(eV, Cmp("gt", P("e", <<"rank">>), IntL(1)))),
              Coll(Id0("authors"), "all", Lam(eV, Cmp("lt", P("e", <<"rank">>), IntL(2)))) }
OrgBrackets == { Coll(Id0("authors"), q, Lam(eV, HE)) : q \in {"any", "all"} }
PostBrackets == { Coll(Id0("comments"), q, Lam(cV, HC)) : q \in {"any", "all"} }
           \cup { Coll(Id0("authors"), q, Lam(eV, HE)) : q \in {"any", "all"} }
           \cup { Coll(P("author", <<"posts">>), q, Lam(pV, HP)) : q \in {"any", "all"} }
AuthorAtoms == { Cmp("eq", P("home", <<"name">>), NullL),
                 \* paths that END in a relationship: the comparison is with its foreign key
                 Cmp("eq", P("boss", <<"boss", "id">>), IntL(3)), Cmp("eq", P("boss", <<"id">>), IntL(2)), Cmp("eq", P("boss", <<"boss", "boss", "id">>), NullL),
                 Cmp("eq", Id0("org"), IntL(1)), Cmp("eq", P("boss", <<"boss">>), IntL(3)), Cmp("eq", P("boss", <<"org">>), IntL(1)),
                 Cmp("eq", P("boss", <<"boss", "boss">>), NullL), Cmp("ne", P("home", <<"lead">>), IntL(2)),
                 \* a self-referential relationship navigated one, two and three times
                 Cmp("eq", P("boss", <<"name">>), SL("bob")), Cmp("eq", P("boss", <<"boss", "name">>), NullL),
                 Cmp("eq", P("boss", <<"boss", "boss", "name">>), NullL), Cmp("gt", P("boss", <<"boss", "boss", "rank">>), IntL(1)),
                 Bool("or", Cmp("eq", P("boss", <<"boss", "boss", "name">>), SL("ann")), Coll(P("boss", <<"posts">>), "any", None)),
                 \* paths that come back to the model they started from, and two routes into one table
                 Cmp("eq", P("home", <<"lead", "name">>), SL("bob")), Cmp("ne", P("org", <<"lead", "age">>), IntL(30)),
                 Bool("or", Cmp("eq", P("home", <<"lead", "name">>), Id0("name")), Cmp("eq", P("org", <<"lead", "name">>), NullL)), Cmp("eq", Id0("name"), SL("ann")), Cmp("eq", Id0("age"), NullL), Cmp("eq", P("org", <<"name">>), SL("x")),
                 Cmp("eq", P("org", <<"k">>), NullL), Coll(Id0("posts"), "any", None), Coll(Id0("edited"), "any", None) }
AuthorBrackets == { Coll(Id0("posts"), q, Lam(pV, HP)) : q \in {"any", "all"} }
             \cup { Coll(Id0("edited"), q, Lam(pV, HP)) : q \in {"any", "all"} }
Connectives(h) == { <<1, Bool("and", h, h)>>, <<1, Bool("or", h, h)>>, <<1, Un("not", h)>> }
Expand(h) ==
  CASE h = "B" -> (IF Root = "Post" THEN { <<0, x>> : x \in PostAtoms \cup PostLambdaAtoms \cup SameNameAtomsPost } \cup { <<1, x>> : x \in PostBrackets }
                   ELSE IF Root = "Org" THEN { <<0, x>> : x \in OrgAtoms } \cup { <<1, x>> : x \in OrgBrackets }
                   ELSE { <<0, x>> : x \in AuthorAtoms \cup SameNameAtomsAuthor } \cup { <<1, x>> : x \in AuthorBrackets }) \cup Connectives(HB)
    [] h = "C" -> { <<0, Cmp("gt", P("c", <<"k">>), IntL(1))>>, <<0, Cmp("eq", P("c", <<"k">>), IntL(2))>>, <<0, Cmp("ge", P("c", <<"k">>), IntL(2))>>,
                    <<0, Cmp("le", IntL(2), P("c", <<"k">>))>>,
                    <<0, Cmp("lt", P("c", <<"k">>), IntL(3))>>, <<0, Cmp("eq", P("c", <<"post", "id">>), IntL(6))>> }
                  \cup Connectives(HC)
    [] h = "E" -> { <<0, Cmp("gt", P("e", <<"rank">>), IntL(1))>>, <<0, Cmp("eq", P("e", <<"rank">>), IntL(2))>>,
                    <<0, Coll(P("e", <<"edited">>), "any", None)>>,
                    <<1, Coll(P("e", <<"posts">>), "any", Lam(pV, HP))>>, <<1, Coll(P("e", <<"posts">>), "all", Lam(pV, HP))>> }
                  \cup Connectives(HE)
    [] h = "P" -> { <<0, Cmp("gt", P("p", <<"id">>), IntL(10))>>, <<0, Cmp("lt", P("p", <<"id">>), IntL(4))>>,
                    <<0, Coll(P("p", <<"comments">>), "any", None)>>,
                    <<1, Coll(P("p", <<"comments">>), "any", Lam(cV, HC))>>, <<1, Coll(P("p", <<"comments">>), "all", Lam(cV, HC))>> }
                  \cup Connectives(HP)

Init == t = HB /\ n = 0
Fill == LET h == FirstHole(t) IN
        /\ h # NoHole
        /\ \E e \in Expand(h[2]) : n + e[1] <= MaxOps /\ t' = FillFirst(t, e[2]) /\ n' = n + e[1]
Next == Fill
Complete == ~HasHole(t)

Export == PrintT(ToJson(IF Complete
            THEN [k |-> "case", tree |-> t, nops |-> n, root |-> Root, text |-> TextOf(Pr(t, "min"), SP),
                  expected |-> SelectedParents(DB, Root, t)]
            ELSE IF t = HB THEN [k |-> "db", db |-> DB, root |-> Root, inst |-> Inst]
            ELSE [k |-> "partial"]))
=============================================================================
