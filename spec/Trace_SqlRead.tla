--------------------------- MODULE Trace_SqlRead ---------------------------
(***************************************************************************)
(* Trace validation of the SQL emitted for a filter against its structure. *)
(* Cases (JSON, env TRACE_FILE): records                                   *)
(*   [id, tree, out, nfields, leaves: <<tree, sql>>*, skels: <<tree, sql>>*,*)
(*    aliased (SQL with table alias, or <<>>), alias (code points)]        *)
(* all SQL texts are what the dialect under test emitted.                  *)
(* Verdict:                                                                *)
(*   not-wellformed     - does not lex to the end in normal mode, contains *)
(*                        comment / semicolon / unlexable token or the     *)
(*                        placeholder word NONE, or SqlRead rejects it     *)
(*   structure-mismatch - SqlRead(out) differs from the tree composed from *)
(*                        the spec's operator table, the leaves' own SQL   *)
(*                        and the call skeletons' own SQL                  *)
(*   literal-content-differs - a string literal's own SQL is not one       *)
(*                        string token with exactly the literal's content  *)
(*   alias-mismatch     - deleting every  "alias".  prefix does not give   *)
(*                        the unaliased token stream, or their number is   *)
(*                        not the number of field references               *)
(*   ok                                                                    *)
(***************************************************************************)
EXTENDS SqlRead, Ast, Json, IOUtils, TLC
\* File: [cases |-> <<...>>, leaves |-> [dialect |-> <<<<tree, sql>>, ...>>], skels |-> [dialect |-> ...]];
\* a case carries its dialect `d` and nothing else but its own texts: the per-dialect tables are shared.
File == JsonDeserialize(IOEnv.TRACE_FILE)
Cases == File.cases
VARIABLES lo, hi
Init == lo = 1 /\ hi = Len(Cases)
Split == /\ lo < hi
         /\ LET mid == (lo + hi) \div 2 IN \/ (lo' = lo /\ hi' = mid) \/ (lo' = mid + 1 /\ hi' = hi)
Next == Split

WellFormed(x) == LET l == SqlLexRun(x) IN
                 /\ l.mode = "N" /\ ~Hostile(l.toks)
                 /\ ~\E i \in 1..Len(l.toks) : l.toks[i] = <<"WORD", StrCps("NONE")>>
                 /\ ReadSql(l.toks)[1] = "ok"
TreeOfSql(x) == ReadSqlText(x)[2]
Lookup(pairs, key) == LET hits == {i \in 1..Len(pairs) : pairs[i][1] = key} IN
                      IF hits = {} THEN <<"missing">> ELSE TreeOfSql(pairs[CHOOSE i \in hits : TRUE][2])
BinName == [ add |-> "ADD", sub |-> "SUB", mul |-> "MUL", div |-> "DIV", mod |-> "MOD",
             eq |-> "EQ", ne |-> "NE", lt |-> "LT", le |-> "LE", gt |-> "GT", ge |-> "GE", and |-> "AND", or |-> "OR" ]
PatternFns == {"contains", "startswith", "endswith"}
KeepArg(f, i, a) == a[1] = "List" \/ (f \in PatternFns /\ i = 2 /\ a[1] = "Lit")
ZName(i) == CASE i = 1 -> "zz1" [] i = 2 -> "zz2" [] OTHER -> "zz3"
Skel(c) == Call(c[2], [i \in 1..Len(c[3]) |-> IF KeepArg(c[2][3], i, c[3][i]) THEN c[3][i] ELSE Id0(ZName(i))])
IsNullL(x) == x[1] = "Lit" /\ x[2] = "Null"
ItemsOf(st) == IF st[1] = "list" THEN st[2] ELSE <<st>>
RECURSIVE E(_, _), FillArgs(_, _, _, _)
FillArgs(c, call, st, i) == IF i > Len(call[3]) THEN st
                            ELSE IF KeepArg(call[2][3], i, call[3][i]) THEN FillArgs(c, call, st, i + 1)
                            ELSE FillArgs(c, call, SubstCol(st, StrCps(ZName(i)), E(c, call[3][i])), i + 1)
E(c, x) ==
  CASE x[1] \in {"Id", "Lit", "List"} -> Lookup(File.leaves[c.d], x)
    [] x[1] \in {"Bin", "Bool"} -> <<"op", BinName[x[2]], E(c, x[3]), E(c, x[4])>>
    [] x[1] = "Cmp" -> IF x[2] = "in" THEN <<"in", E(c, x[3]), ItemsOf(E(c, x[4])), FALSE>>
                       ELSE IF x[2] \in {"eq", "ne"} /\ IsNullL(x[4]) THEN <<"isnull", E(c, x[3]), x[2] = "ne">>
                       ELSE IF x[2] \in {"eq", "ne"} /\ IsNullL(x[3]) THEN <<"isnull", E(c, x[4]), x[2] = "ne">>
                       ELSE <<"op", BinName[x[2]], E(c, x[3]), E(c, x[4])>>
    [] x[1] = "Un" -> <<"un", IF x[2] = "not" THEN "NOT" ELSE "NEG", E(c, x[3])>>
    [] x[1] = "Call" -> FillArgs(c, x, Lookup(File.skels[c.d], Skel(x)), 1)

\* alias clause
RECURSIVE StripAlias(_, _)
StripAlias(ts, al) == IF Len(ts) < 3 THEN ts
                      ELSE IF ts[1] = <<"QID", al>> /\ ts[2] = <<"P", DOT>> /\ ts[3][1] = "QID" THEN <<ts[3]>> \o StripAlias(SubSeq(ts, 4, Len(ts)), al)
                      ELSE <<ts[1]>> \o StripAlias(Tail(ts), al)
AliasOk(c) == LET a == SqlTokens(c.aliased)  b == SqlTokens(c.out)  s == StripAlias(a, c.alias) IN
              s = b /\ (Len(a) - Len(s)) = 2 * c.nfields

\* every call skeleton of the dialect mentions each replaced argument exactly once
RECURSIVE SkelsOf(_)
SkelsOf(x) == CASE x[1] \in {"Id", "Lit", "List"} -> {}
                [] x[1] = "Call" -> {Skel(x)} \cup UNION { IF KeepArg(x[2][3], i, x[3][i]) THEN {} ELSE SkelsOf(x[3][i]) : i \in 1..Len(x[3]) }
                [] OTHER -> LET ks == Sub(x) IN UNION { SkelsOf(ks[i]) : i \in 1..Len(ks) }
SkelArgsOnce(c) == \A sk \in SkelsOf(c.tree) :
                     LET st == Lookup(File.skels[c.d], sk) IN
                     \A i \in 1..Len(sk[3]) : (sk[3][i] = Id0(ZName(i))) => CountCol(st, StrCps(ZName(i))) = 1
\* every string literal that is a leaf of the filter is, in the dialect's own rendering, exactly one string-literal
\* token whose content is the literal's content (quotes doubled and un-doubled, nothing else touched)
RECURSIVE StrLeaves(_)
StrLeaves(x) == CASE x[1] = "Lit" -> (IF x[2] = "String" THEN {x} ELSE {})
                  [] x[1] \in {"Id", "List"} -> {}
                  [] x[1] = "Call" -> UNION { IF KeepArg(x[2][3], i, x[3][i]) THEN {} ELSE StrLeaves(x[3][i]) : i \in 1..Len(x[3]) }
                  [] OTHER -> LET ks == Sub(x) IN UNION { StrLeaves(ks[i]) : i \in 1..Len(ks) }
LeafSqlOf(c, x) == LET pairs == File.leaves[c.d]  hits == {i \in 1..Len(pairs) : pairs[i][1] = x} IN
                   IF hits = {} THEN <<>> ELSE pairs[CHOOSE i \in hits : TRUE][2]
\* ... and every decimal literal leaf is one number token spelled as in the filter (sign apart), or a typed literal
\* around it; its digits are not re-derived from a binary floating point value
RECURSIVE NumLeaves(_)
NumLeaves(x) == CASE x[1] = "Lit" -> (IF x[2] = "Float" THEN {x} ELSE {})
                  [] x[1] \in {"Id", "List"} -> {}
                  [] x[1] = "Call" -> UNION { IF KeepArg(x[2][3], i, x[3][i]) THEN {} ELSE NumLeaves(x[3][i]) : i \in 1..Len(x[3]) }
                  [] OTHER -> LET ks == Sub(x) IN UNION { NumLeaves(ks[i]) : i \in 1..Len(ks) }
Unsigned(t) == IF Len(t) > 0 /\ t[1] \in {43, 45} THEN Tail(t) ELSE t
NumLeafOk(c, x) == LET ts == SqlTokens(LeafSqlOf(c, x))
                       nums == { i \in 1..Len(ts) : ts[i][1] = "NUM" } IN
                   \E i \in nums : LowerSeq(ts[i][2]) = LowerSeq(Unsigned(StrCps(x[3])))
\* ... and every boolean literal leaf is the one token that stands for ITS value in the dialect (TRUE / FALSE, or 1 / 0),
\* however the literal was spelled in the filter
RECURSIVE BoolLeaves(_)
BoolLeaves(x) == CASE x[1] = "Lit" -> (IF x[2] = "Boolean" THEN {x} ELSE {})
                   [] x[1] \in {"Id", "List"} -> {}
                   [] x[1] = "Call" -> UNION { IF KeepArg(x[2][3], i, x[3][i]) THEN {} ELSE BoolLeaves(x[3][i]) : i \in 1..Len(x[3]) }
                   [] OTHER -> LET ks == Sub(x) IN UNION { BoolLeaves(ks[i]) : i \in 1..Len(ks) }
BoolLeafOk(c, x) == LET ts == SqlTokens(LeafSqlOf(c, x))
                        isTrue == LowerSeq(StrCps(x[3])) = StrCps("true") IN
                    \/ ts = << <<"WORD", StrCps(IF isTrue THEN "TRUE" ELSE "FALSE")>> >>
                    \/ ts = << <<"NUM", StrCps(IF isTrue THEN "1" ELSE "0")>> >>
LeafLiteralsOk(c) == /\ \A x \in StrLeaves(c.tree) : SqlTokens(LeafSqlOf(c, x)) = << <<"STR", x[3]>> >>
                     /\ \A x \in NumLeaves(c.tree) : NumLeafOk(c, x)
                     /\ \A x \in BoolLeaves(c.tree) : BoolLeafOk(c, x)
VerdictOf(c) ==
  IF ~WellFormed(c.out) THEN "not-wellformed"
  ELSE IF ~LeafLiteralsOk(c) THEN "literal-content-differs"
  ELSE IF ~SkelArgsOnce(c) THEN "template-drops-or-duplicates-argument"
  ELSE IF TreeOfSql(c.out) # E(c, c.tree) THEN "structure-mismatch"
  ELSE IF Len(c.aliased) > 0 /\ ~AliasOk(c) THEN "alias-mismatch"
  ELSE "ok"
Verdict == (lo = hi /\ Len(Cases) > 0) =>
              PrintT(ToJson([k |-> "verdict", id |-> Cases[lo].id, v |-> VerdictOf(Cases[lo])]))
=============================================================================
