INIT Init
NEXT Next
CONSTANTS
  Deep = FALSE
  CpsMode = TRUE
INVARIANT PairParses
INVARIANT Export
CHECK_DEADLOCK FALSE
