INIT Init
NEXT Next
CONSTANTS
  CpsMode = TRUE
INVARIANT PairParses
INVARIANT Export
CHECK_DEADLOCK FALSE
