INIT Init
NEXT Next
CONSTANTS
  CpsMode = FALSE
INVARIANT MachineAgreesWithTable
INVARIANT BwsSameOutcome
INVARIANT Export
CHECK_DEADLOCK FALSE
