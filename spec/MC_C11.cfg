INIT Init
NEXT Next
CONSTANTS
  CpsMode = FALSE
INVARIANT MachineAgreesWithTable
INVARIANT Export
CHECK_DEADLOCK FALSE
