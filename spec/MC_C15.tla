------------------------------ MODULE MC_C15 ------------------------------
(***************************************************************************)
(* C15: the query-composition machine for the shorthands.                  *)
(*                                                                         *)
(* A host query is  q = [style, wheres, joins, order, annot, applied].     *)
(* The host builds it with BaseWhere / BaseJoin / BaseOrder / BaseAnnotate *)
(* in any order, then the shorthand performs Apply(f):                     *)
(*      wheres' = wheres \cup {f}                                          *)
(*      joins'  = joins \cup (Required(f) \ joins)   - nothing twice       *)
(*      order, annot, style unchanged                                      *)
(* The rows of a query: the root rows satisfying every where-condition     *)
(* (Rel!EvalR) and having a related row for every INNER-joined to-one      *)
(* relation, in the base order.  Every complete behaviour is exported      *)
(* with its expected rows and replayed on real host queries.               *)
(***************************************************************************)
EXTENDS Lex, Rel, Json, FiniteSets
CONSTANTS Inst, Deep      \* Deep: up to two base conditions and two pre-joins (author and info) per host query
VARIABLES q, steps

INSTANCE_DB == INSTANCE MC_C04 WITH MaxOps <- 0, Root <- "Post", t <- q, n <- steps
DB == INSTANCE_DB!DB
P(root, segs) == INSTANCE_DB!P(root, segs)
SL(x) == StrL(StrCps(x))

\* dj-related: the base is a related manager (the posts of author 1), not the model's default manager
\* sa-*-cols: the base selects a column subset (the title) that does not identify the row
\* (the Deep machine keeps to the entity styles and the OData filters: its space is the orders of two conditions and two pre-joins)
Styles == {"sa-select", "sa-legacy", "dj-queryset", "dj-manager", "dj-related"} \cup (IF Deep THEN {} ELSE {"sa-select-cols", "sa-legacy-cols", "sa-select-grouped"})
\* native base conditions the harness knows how to build without the library, with their meaning
BaseConds == [ npos |-> Cmp("gt", Id0("n"), IntL(0)), ta |-> Cmp("eq", Id0("title"), SL("a")),
               hasauthor |-> Cmp("ne", P("author", <<"name">>), NullL) ]
\* filters handed to the shorthand (with and without navigation)
Filters == << Cmp("eq", Id0("n"), IntL(1)),
              Cmp("eq", P("author", <<"name">>), SL("ann")),
              Cmp("eq", P("author", <<"name">>), NullL),
              Cmp("eq", P("author", <<"org", "name">>), SL("x")),
              Bool("or", Cmp("gt", P("author", <<"age">>), IntL(1)), Cmp("eq", Id0("n"), IntL(-3))),
              Coll(Id0("comments"), "any", Lam(Id0("c"), Cmp("gt", P("c", <<"k">>), IntL(1)))),
              Bool("and", Cmp("ne", Id0("title"), NullL), Coll(Id0("authors"), "all", Lam(Id0("e"), Cmp("gt", P("e", <<"rank">>), IntL(1))))),
              Call(Id0("contains"), <<Id0("title"), SL("a")>>),
              Bool("and", Cmp("eq", P("info", <<"tag">>), SL("p")), Cmp("eq", P("author", <<"info", "tag">>), SL("a"))),
              Bool("or", Cmp("eq", P("author", <<"home", "name">>), NullL), Cmp("eq", P("info", <<"tag">>), SL("p"))) >>
\* A comparison on a path THROUGH a collection (no lambda).  Not OData, but both ORMs give it one meaning, the join:
\* a base row is selected once per related row that makes the comparison true.  The result is a bag of base rows.
\* (the many-to-many "authors" is left out: it reaches the Author table a second time next to a host join on "author")
ManyFilters == << Cmp("eq", P("comments", <<"k">>), IntL(3)), Cmp("gt", P("comments", <<"k">>), IntL(1)),
                  Cmp("eq", P("comments", <<"text">>), SL("x")) >>
NF == Len(Filters)
IsMany(f) == f > NF
FilterAt(f) == IF IsMany(f) THEN ManyFilters[f - NF] ELSE Filters[f]
Kids(r, rel) == IF rel = "comments" THEN { c \in DB["Comment"] : c.post = IV(r.id) }
                ELSE { x \in DB["Author"] : <<r.id, x.id>> \in DB["editors"] }
Mult(r, f) == LET t == FilterAt(f)  rel == t[3][2][3]  fld == t[3][3] IN
              Cardinality({ c \in Kids(r, rel) : Compare(t[2], c[fld], EvalR(DB, [k \in {""} |-> <<"Post", r>>], t[4])) = TRUEV })
\* to-one relations a filter navigates (the joins SQLAlchemy needs; Django resolves them itself)
RECURSIVE RootOf(_)
RootOf(p) == IF p[1] = "Attr" THEN RootOf(p[2]) ELSE p
RECURSIVE Required(_)
Required(t) == IF t[1] = "Attr" THEN (IF RootOf(t)[3] = "author" THEN {"author"} ELSE {})
               ELSE IF t[1] \in {"Coll", "Id", "Lit"} THEN {}
               ELSE IF t[1] = "Call" THEN UNION { Required(t[3][i]) : i \in 1..Len(t[3]) }
               ELSE LET ks == Sub(t) IN UNION { Required(ks[i]) : i \in 1..Len(ks) }
Empty == [style |-> "none", wheres |-> <<>>, joins |-> <<>>, order |-> "none", annot |-> FALSE, applied |-> 0]
Init == q = Empty /\ steps = <<>>
PickStyle == /\ q.style = "none" /\ \E s \in Styles : q' = [q EXCEPT !.style = s]
             /\ steps' = steps
\* sa-select-grouped: the base aggregates (posts per author: GROUP BY author, COUNT); only conditions are put on it
Buildable == q.style \in {"sa-select", "sa-legacy", "dj-queryset", "sa-select-cols", "sa-legacy-cols", "sa-select-grouped"} /\ q.applied = 0
Plain == q.style # "sa-select-grouped"
BaseWhere == /\ Buildable /\ Len(q.wheres) < (IF Deep THEN 2 ELSE 1)
             /\ \E c \in DOMAIN BaseConds : (\A i \in 1..Len(q.wheres) : q.wheres[i] # c) /\ q' = [q EXCEPT !.wheres = Append(@, c)] /\ steps' = Append(steps, <<"where", c>>)
\* author-explicit: joined by naming the target and the ON clause (join(Author, Post.author_id == Author.id)) instead of the relationship
RelOf(j) == IF j \in {"author-inner", "author-outer", "author-explicit"} THEN "author" ELSE "info"
BaseJoin == /\ Buildable /\ Plain /\ Len(q.joins) < (IF Deep THEN 2 ELSE 1) /\ q.style # "dj-queryset"
            /\ \E j \in {"author-inner", "author-outer", "author-explicit", "info-inner", "info-outer"} :
                 (\A i \in 1..Len(q.joins) : RelOf(q.joins[i]) # RelOf(j)) /\ q' = [q EXCEPT !.joins = Append(@, j)] /\ steps' = Append(steps, <<"join", j>>)
BaseOrder == /\ Buildable /\ Plain /\ q.order = "none"
             /\ q' = [q EXCEPT !.order = "id-desc"] /\ steps' = Append(steps, <<"order", "id-desc">>)
BaseAnnotate == /\ Buildable /\ Plain /\ ~q.annot
                /\ q' = [q EXCEPT !.annot = TRUE] /\ steps' = Append(steps, <<"annotate", "extra">>)
Apply == /\ q.style # "none" /\ q.applied = 0
         /\ \E f \in 1..(IF Deep THEN NF ELSE NF + Len(ManyFilters)) : q' = [q EXCEPT !.applied = f] /\ steps' = Append(steps, <<"apply", f>>)
Next == PickStyle \/ BaseWhere \/ BaseJoin \/ BaseOrder \/ BaseAnnotate \/ Apply
IsCase == q.applied # 0

\* ---- meaning
InnerJoined(rel) == \E i \in 1..Len(q.joins) : q.joins[i] = rel
BaseOk(r) == /\ \A i \in 1..Len(q.wheres) : EvalR(DB, [k \in {""} |-> <<"Post", r>>], BaseConds[q.wheres[i]]) = TRUEV
             /\ ((InnerJoined("author-inner") \/ InnerJoined("author-explicit")) => r.author # NULL)
             /\ (q.style = "dj-related" => r.author = IV(1))
             /\ (InnerJoined("info-inner") => r.info # NULL)
BaseRows == { r.id : r \in { x \in DB["Post"] : BaseOk(x) } }
Sat(x) == IF IsMany(q.applied) THEN Mult(x, q.applied) >= 1 ELSE EvalR(DB, [k \in {""} |-> <<"Post", x>>], Filters[q.applied]) = TRUEV
ResultRows == { r.id : r \in { x \in DB["Post"] : BaseOk(x) /\ Sat(x) } }
\* how often each selected row appears (1 unless the filter joins a collection)
ResultMult == { <<r.id, IF IsMany(q.applied) THEN Mult(r, q.applied) ELSE 1>> : r \in { x \in DB["Post"] : BaseOk(x) /\ Sat(x) } }
\* joins the result must contain: the host's, plus "author" exactly once if the filter navigates it (SQLAlchemy)
NeedsAuthor == "author" \in Required(FilterAt(q.applied))
ResultSubsetOfBase == IsCase => ResultRows \subseteq BaseRows

Export == PrintT(ToJson(IF IsCase
            THEN [k |-> "case", style |-> q.style, steps |-> steps, filter |-> TextOf(Pr(FilterAt(q.applied), "min"), SP), mult |-> ResultMult, many |-> IsMany(q.applied),
                  base |-> BaseRows, expected |-> ResultRows, ordered |-> q.order # "none", annot |-> q.annot,
                  needs_author |-> NeedsAuthor,
                  host_joined |-> (\E i \in 1..Len(q.joins) : q.joins[i] \in {"author-inner", "author-outer", "author-explicit"})]
            ELSE IF q = Empty THEN [k |-> "db", db |-> DB]
            ELSE [k |-> "partial"]))
=============================================================================
