------------------------------- MODULE Cps --------------------------------
(***************************************************************************)
(* Text as sequences of Unicode code points.  TLA+ strings are used only   *)
(* for names drawn from finite ASCII alphabets; StrCps converts them.      *)
(***************************************************************************)
EXTENDS Naturals, Integers, Sequences, UniTable

Printable == " !\"#$%&'()*+,-./0123456789:;<=>?@ABCDEFGHIJKLMNOPQRSTUVWXYZ[\\]^_`abcdefghijklmnopqrstuvwxyz{|}~"
\* a few non-ASCII word characters that names in the generators may contain (TLC strings hold UTF-16 units)
ExtChars == "ößſïé²"
ExtCodes == <<246, 223, 383, 239, 233, 178>>
CharCode == [c \in {SubSeq(Printable, i, i) : i \in 1..Len(Printable)} \cup {SubSeq(ExtChars, i, i) : i \in 1..Len(ExtChars)} |->
               IF \E i \in 1..Len(Printable) : SubSeq(Printable, i, i) = c
               THEN 31 + CHOOSE i \in 1..Len(Printable) : SubSeq(Printable, i, i) = c
               ELSE ExtCodes[CHOOSE i \in 1..Len(ExtChars) : SubSeq(ExtChars, i, i) = c]]
StrCps(s) == [i \in 1..Len(s) |-> CharCode[SubSeq(s, i, i)]]

\* \s and \w are Unicode-aware in the real lexer; the non-ASCII part comes from the generated table UniTable
IsSpace(c) == c \in {9, 10, 11, 12, 13, 32} \/ c \in UniSpace
IsDigit(c) == c >= 48 /\ c <= 57
IsUpper(c) == c >= 65 /\ c <= 90
IsLower(c) == c >= 97 /\ c <= 122
IsAlpha(c) == IsUpper(c) \/ IsLower(c)
IsWord(c)  == IsAlpha(c) \/ IsDigit(c) \/ c = 95 \/ c \in UniWord
IsHex(c)   == IsDigit(c) \/ (c >= 97 /\ c <= 102) \/ (c >= 65 /\ c <= 70)
IsAscii(c) == (c >= 32 /\ c <= 126) \/ c \in {9, 10, 11, 12, 13}
\* a code point whose character class the specification knows
IsKnown(c) == IsAscii(c) \/ c \in UniKnown
Lower(c) == IF IsUpper(c) THEN c + 32 ELSE c
Upper(c) == IF IsLower(c) THEN c - 32 ELSE c
LowerSeq(s) == [i \in 1..Len(s) |-> Lower(s[i])]
UpperSeq(s) == [i \in 1..Len(s) |-> Upper(s[i])]

RECURSIVE NatCps(_)
NatCps(n) == IF n < 10 THEN <<48 + n>> ELSE NatCps(n \div 10) \o <<48 + (n % 10)>>
IntCps(n) == IF n < 0 THEN <<45>> \o NatCps(-n) ELSE NatCps(n)

\* value of a digit sequence
RECURSIVE DigitsVal(_)
DigitsVal(s) == IF s = <<>> THEN 0 ELSE 10 * DigitsVal(SubSeq(s, 1, Len(s) - 1)) + (s[Len(s)] - 48)

\* flatten text pieces (strings, code-point sequences, one nesting level of pieces) into code points
IsStr(x) == x \in STRING
=============================================================================
