------------------------------ MODULE SqlRead ------------------------------
(***************************************************************************)
(* A reader for SQL boolean/scalar expressions with standard operator      *)
(* precedence, over the tokens of SqlLex:                                  *)
(*    OR < AND < NOT < comparison / IS [NOT] NULL / [NOT] IN / [NOT] LIKE  *)
(*       < || < + - < * / % < unary + -                                    *)
(* plus function calls (arguments separated by commas or by the keywords   *)
(* FROM / FOR / IN / AS, as in EXTRACT, SUBSTRING, POSITION, CAST), typed  *)
(* literals (DATE '..', TIMESTAMP '..', INTERVAL '..' UNIT), qualified     *)
(* identifiers and CASE expressions.  Grouping parentheses are dropped:    *)
(* the result is the tree the engine would evaluate.                       *)
(*                                                                         *)
(* Trees:  <<"op", NAME, l, r>>  <<"un", NAME, x>>  <<"isnull", x, neg>>   *)
(*         <<"in", x, items, neg>>  <<"like", x, pat, esc, neg>>           *)
(*         <<"fn", NAME, args, seps>>  <<"col", alias, name>>              *)
(*         <<"str", c>> <<"num", text>> <<"kw", NAME>> <<"param">>         *)
(*         <<"typed", NAME, c, unit>>  <<"list", items>>  <<"case", ...>>  *)
(* ReadSql(tokens) = <<"ok", tree>> | <<"err", position>>                  *)
(***************************************************************************)
EXTENDS SqlLex

W(s) == StrCps(s)
Tok(ts, i) == IF i >= 1 /\ i <= Len(ts) THEN ts[i] ELSE <<"EOF">>
IsW(t, s) == t[1] = "WORD" /\ t[2] = W(s)
IsOp(t, s) == t[1] = "OP" /\ t[2] = W(s)
IsP(t, ch) == t[1] = "P" /\ t[2] = ch
LP == 40  RP == 41  COMMA == 44  DOT == 46
\* every parse function returns <<ok, value, next position>>
OK(v, p) == <<TRUE, v, p>>
ERR(p) == <<FALSE, <<>>, p>>
Bad(r) == ~r[1]
CmpName(t) == IF IsOp(t, "=") THEN "EQ" ELSE IF IsOp(t, "!=") \/ IsOp(t, "<>") THEN "NE"
              ELSE IF IsOp(t, "<") THEN "LT" ELSE IF IsOp(t, "<=") THEN "LE"
              ELSE IF IsOp(t, ">") THEN "GT" ELSE IF IsOp(t, ">=") THEN "GE" ELSE ""
ArgSeps == { W("FROM"), W("FOR"), W("IN"), W("AS") }
NoneT == <<"none">>

RECURSIVE POr(_, _), POrRest(_, _, _), PAnd(_, _), PAndRest(_, _, _), PNot(_, _), PPred(_, _), PPredRest(_, _, _),
          PConcat(_, _), PConcatRest(_, _, _), PAdd(_, _), PAddRest(_, _, _), PMul(_, _), PMulRest(_, _, _),
          PUnary(_, _), PAtom(_, _), PItems(_, _, _), PArgs(_, _, _, _, _), PWhens(_, _, _)

POr(ts, i) == LET l == PAnd(ts, i) IN IF Bad(l) THEN l ELSE POrRest(ts, l[2], l[3])
POrRest(ts, l, i) == IF IsW(Tok(ts, i), "OR")
                     THEN LET r == PAnd(ts, i + 1) IN IF Bad(r) THEN r ELSE POrRest(ts, <<"op", "OR", l, r[2]>>, r[3])
                     ELSE OK(l, i)
PAnd(ts, i) == LET l == PNot(ts, i) IN IF Bad(l) THEN l ELSE PAndRest(ts, l[2], l[3])
PAndRest(ts, l, i) == IF IsW(Tok(ts, i), "AND")
                      THEN LET r == PNot(ts, i + 1) IN IF Bad(r) THEN r ELSE PAndRest(ts, <<"op", "AND", l, r[2]>>, r[3])
                      ELSE OK(l, i)
PNot(ts, i) == IF IsW(Tok(ts, i), "NOT")
               THEN LET x == PNot(ts, i + 1) IN IF Bad(x) THEN x ELSE OK(<<"un", "NOT", x[2]>>, x[3])
               ELSE PPred(ts, i)
PPred(ts, i) == LET l == PConcat(ts, i) IN IF Bad(l) THEN l ELSE PPredRest(ts, l[2], l[3])
PPredRest(ts, l, i) ==
  LET t == Tok(ts, i)  t2 == Tok(ts, i + 1)  t3 == Tok(ts, i + 2) IN
  IF CmpName(t) # "" THEN
       LET r == PConcat(ts, i + 1) IN IF Bad(r) THEN r ELSE PPredRest(ts, <<"op", CmpName(t), l, r[2]>>, r[3])
  ELSE IF IsW(t, "IS") /\ IsW(t2, "NULL") THEN PPredRest(ts, <<"isnull", l, FALSE>>, i + 2)
  ELSE IF IsW(t, "IS") /\ IsW(t2, "NOT") /\ IsW(t3, "NULL") THEN PPredRest(ts, <<"isnull", l, TRUE>>, i + 3)
  ELSE LET neg == IsW(t, "NOT") /\ (IsW(t2, "IN") \/ IsW(t2, "LIKE"))
           j == IF neg THEN i + 1 ELSE i
           k == Tok(ts, j) IN
       IF IsW(k, "IN") /\ IsP(Tok(ts, j + 1), LP) THEN
            LET it == PItems(ts, j + 2, <<>>) IN
            IF Bad(it) THEN it ELSE PPredRest(ts, <<"in", l, it[2], neg>>, it[3])
       ELSE IF IsW(k, "LIKE") THEN
            LET p == PConcat(ts, j + 1) IN
            IF Bad(p) THEN p
            ELSE IF IsW(Tok(ts, p[3]), "ESCAPE")
                 THEN LET e == PAtom(ts, p[3] + 1) IN IF Bad(e) THEN e ELSE PPredRest(ts, <<"like", l, p[2], e[2], neg>>, e[3])
                 ELSE PPredRest(ts, <<"like", l, p[2], NoneT, neg>>, p[3])
       ELSE OK(l, i)
\* comma separated expressions up to the closing parenthesis (which is consumed); value: sequence of trees
PItems(ts, i, acc) ==
  LET x == POr(ts, i) IN
  IF Bad(x) THEN x
  ELSE IF IsP(Tok(ts, x[3]), COMMA) THEN PItems(ts, x[3] + 1, Append(acc, x[2]))
  ELSE IF IsP(Tok(ts, x[3]), RP) THEN OK(Append(acc, x[2]), x[3] + 1)
  ELSE ERR(x[3])
PConcat(ts, i) == LET l == PAdd(ts, i) IN IF Bad(l) THEN l ELSE PConcatRest(ts, l[2], l[3])
PConcatRest(ts, l, i) == IF IsOp(Tok(ts, i), "||")
                         THEN LET r == PAdd(ts, i + 1) IN IF Bad(r) THEN r ELSE PConcatRest(ts, <<"op", "CONCAT", l, r[2]>>, r[3])
                         ELSE OK(l, i)
PAdd(ts, i) == LET l == PMul(ts, i) IN IF Bad(l) THEN l ELSE PAddRest(ts, l[2], l[3])
PAddRest(ts, l, i) ==
  LET t == Tok(ts, i) IN
  IF IsOp(t, "+") \/ IsOp(t, "-")
  THEN LET r == PMul(ts, i + 1) IN IF Bad(r) THEN r ELSE PAddRest(ts, <<"op", IF IsOp(t, "+") THEN "ADD" ELSE "SUB", l, r[2]>>, r[3])
  ELSE OK(l, i)
PMul(ts, i) == LET l == PUnary(ts, i) IN IF Bad(l) THEN l ELSE PMulRest(ts, l[2], l[3])
PMulRest(ts, l, i) ==
  LET t == Tok(ts, i) IN
  IF IsOp(t, "*") \/ IsOp(t, "/") \/ IsOp(t, "%")
  THEN LET r == PUnary(ts, i + 1) IN
       IF Bad(r) THEN r ELSE PMulRest(ts, <<"op", IF IsOp(t, "*") THEN "MUL" ELSE IF IsOp(t, "/") THEN "DIV" ELSE "MOD", l, r[2]>>, r[3])
  ELSE OK(l, i)
PUnary(ts, i) == LET t == Tok(ts, i) IN
                 IF IsOp(t, "-") \/ IsOp(t, "+")
                 THEN LET x == PUnary(ts, i + 1) IN IF Bad(x) THEN x ELSE OK(<<"un", IF IsOp(t, "-") THEN "NEG" ELSE "POS", x[2]>>, x[3])
                 ELSE PAtom(ts, i)
\* function arguments: expressions separated by commas or separator keywords, up to ")" (consumed)
\* lvl: "pred" ordinary arguments, "concat" for POSITION(a IN b) where IN is a separator; value: <<args, seps>>
PArgs(ts, i, lvl, args, seps) ==
  IF IsP(Tok(ts, i), RP) /\ Len(args) = 0 THEN OK(<<args, seps>>, i + 1)
  ELSE LET x == IF lvl = "concat" THEN PConcat(ts, i) ELSE POr(ts, i) IN
       IF Bad(x) THEN x
       ELSE LET t == Tok(ts, x[3]) IN
            IF IsP(t, COMMA) THEN PArgs(ts, x[3] + 1, lvl, Append(args, x[2]), Append(seps, W(",")))
            ELSE IF t[1] = "WORD" /\ t[2] \in ArgSeps THEN PArgs(ts, x[3] + 1, lvl, Append(args, x[2]), Append(seps, t[2]))
            ELSE IF IsP(t, RP) THEN OK(<<Append(args, x[2]), seps>>, x[3] + 1)
            ELSE ERR(x[3])
\* WHEN a THEN b ... of a CASE expression; value: sequence of <<cond, value>>
PWhens(ts, i, acc) ==
  IF IsW(Tok(ts, i), "WHEN") THEN
     LET c == POr(ts, i + 1) IN
     IF Bad(c) THEN c
     ELSE IF ~IsW(Tok(ts, c[3]), "THEN") THEN ERR(c[3])
     ELSE LET v == POr(ts, c[3] + 1) IN IF Bad(v) THEN v ELSE PWhens(ts, v[3], Append(acc, <<c[2], v[2]>>))
  ELSE OK(acc, i)
PAtom(ts, i) ==
  LET t == Tok(ts, i)  t2 == Tok(ts, i + 1) IN
  CASE t[1] = "NUM" -> OK(<<"num", t[2]>>, i + 1)
    [] t[1] = "STR" -> OK(<<"str", t[2]>>, i + 1)
    [] t[1] = "PARAM" -> OK(<<"param">>, i + 1)
    [] t[1] = "QID" -> IF IsP(t2, DOT) /\ Tok(ts, i + 2)[1] = "QID"
                       THEN OK(<<"col", t[2], Tok(ts, i + 2)[2]>>, i + 3)
                       ELSE OK(<<"col", <<>>, t[2]>>, i + 1)
    [] IsP(t, LP) -> LET it == PItems(ts, i + 1, <<>>) IN
                     IF Bad(it) THEN it
                     ELSE IF Len(it[2]) = 1 THEN OK(it[2][1], it[3]) ELSE OK(<<"list", it[2]>>, it[3])
    [] t[1] = "WORD" ->
         IF IsW(t, "CASE") THEN
              LET hasOperand == ~IsW(t2, "WHEN")
                  o == IF hasOperand THEN POr(ts, i + 1) ELSE OK(NoneT, i + 1) IN
              IF Bad(o) THEN o
              ELSE LET ws == PWhens(ts, o[3], <<>>) IN
                   IF Bad(ws) THEN ws
                   ELSE IF Len(ws[2]) = 0 THEN ERR(o[3])
                   ELSE LET e == IF IsW(Tok(ts, ws[3]), "ELSE") THEN POr(ts, ws[3] + 1) ELSE OK(NoneT, ws[3]) IN
                        IF Bad(e) THEN e
                        ELSE IF IsW(Tok(ts, e[3]), "END") THEN OK(<<"case", o[2], ws[2], e[2]>>, e[3] + 1) ELSE ERR(e[3])
         ELSE IF t2[1] = "STR" /\ t[2] \in {W("DATE"), W("TIMESTAMP"), W("TIME"), W("INTERVAL")} THEN
              IF t[2] = W("INTERVAL") /\ Tok(ts, i + 2)[1] = "WORD"
              THEN OK(<<"typed", t[2], t2[2], Tok(ts, i + 2)[2]>>, i + 3)
              ELSE OK(<<"typed", t[2], t2[2], <<>>>>, i + 2)
         ELSE IF IsP(t2, LP) THEN
              LET a == PArgs(ts, i + 2, IF t[2] = W("POSITION") THEN "concat" ELSE "pred", <<>>, <<>>) IN
              IF Bad(a) THEN a ELSE OK(<<"fn", t[2], a[2][1], a[2][2]>>, a[3])
         ELSE OK(<<"kw", t[2]>>, i + 1)
    [] OTHER -> ERR(i)

ReadSql(ts) == IF Len(ts) = 0 THEN <<"err", 0>>
               ELSE LET r == POr(ts, 1) IN
                    IF Bad(r) THEN <<"err", r[3]>>
                    ELSE IF r[3] # Len(ts) + 1 THEN <<"err", r[3]>> ELSE <<"ok", r[2]>>
ReadSqlText(x) == LET l == SqlLexRun(x) IN
                  IF l.mode # "N" THEN <<"err", -1>> ELSE IF Hostile(l.toks) THEN <<"err", -2>> ELSE ReadSql(l.toks)

\* number of occurrences of column `name` in tree x
RECURSIVE CountCol(_, _), CountSeq(_, _)
CountSeq(xs, name) == LET F[i \in 0..Len(xs)] == IF i = 0 THEN 0 ELSE F[i - 1] + CountCol(xs[i], name) IN F[Len(xs)]
CountCol(x, name) ==
  CASE x[1] = "col" -> IF x[3] = name THEN 1 ELSE 0
    [] x[1] \in {"str", "num", "kw", "param", "typed", "none"} -> 0
    [] x[1] = "op" -> CountCol(x[3], name) + CountCol(x[4], name)
    [] x[1] = "un" -> CountCol(x[3], name)
    [] x[1] = "isnull" -> CountCol(x[2], name)
    [] x[1] = "in" -> CountCol(x[2], name) + CountSeq(x[3], name)
    [] x[1] = "like" -> CountCol(x[2], name) + CountCol(x[3], name)
    [] x[1] = "fn" -> CountSeq(x[3], name)
    [] x[1] = "list" -> CountSeq(x[2], name)
    [] x[1] = "case" -> CountCol(x[2], name) + CountCol(x[4], name)
                        + (LET F[i \in 0..Len(x[3])] == IF i = 0 THEN 0 ELSE F[i - 1] + CountCol(x[3][i][1], name) + CountCol(x[3][i][2], name) IN F[Len(x[3])])

\* substitute column `name` (no alias) by tree y everywhere in tree x
RECURSIVE SubstCol(_, _, _), SubstSeq(_, _, _)
SubstSeq(xs, name, y) == [i \in 1..Len(xs) |-> SubstCol(xs[i], name, y)]
SubstCol(x, name, y) ==
  CASE x[1] = "col" -> IF x[3] = name THEN y ELSE x
    [] x[1] \in {"str", "num", "kw", "param", "typed", "none"} -> x
    [] x[1] = "op" -> <<"op", x[2], SubstCol(x[3], name, y), SubstCol(x[4], name, y)>>
    [] x[1] = "un" -> <<"un", x[2], SubstCol(x[3], name, y)>>
    [] x[1] = "isnull" -> <<"isnull", SubstCol(x[2], name, y), x[3]>>
    [] x[1] = "in" -> <<"in", SubstCol(x[2], name, y), SubstSeq(x[3], name, y), x[4]>>
    [] x[1] = "like" -> <<"like", SubstCol(x[2], name, y), SubstCol(x[3], name, y), x[4], x[5]>>
    [] x[1] = "fn" -> <<"fn", x[2], SubstSeq(x[3], name, y), x[4]>>
    [] x[1] = "list" -> <<"list", SubstSeq(x[2], name, y)>>
    [] x[1] = "case" -> <<"case", SubstCol(x[2], name, y),
                          [i \in 1..Len(x[3]) |-> <<SubstCol(x[3][i][1], name, y), SubstCol(x[3][i][2], name, y)>>],
                          SubstCol(x[4], name, y)>>
=============================================================================
