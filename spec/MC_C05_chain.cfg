INIT Init
NEXT Next
CONSTANTS
  Lens1 = {1, 17, 18, 40, 66, 130}
  Lens2 = {0, 18}
  Mixed = FALSE
  CpsMode = FALSE
INVARIANT RoundTripMin
INVARIANT RoundTripFull
INVARIANT RoundTripBws
INVARIANT RoundTripFullBws
INVARIANT Export
CHECK_DEADLOCK FALSE
