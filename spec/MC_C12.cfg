INIT Init
NEXT Next
CONSTANTS
  CpsMode = FALSE
INVARIANT Export
CHECK_DEADLOCK FALSE
