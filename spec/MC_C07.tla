------------------------------ MODULE MC_C07 ------------------------------
(***************************************************************************)
(* C07 case generator: every syntactic position a string literal may       *)
(* occupy (comparison operand either side, in-list, every argument of      *)
(* every string function, nested calls, list arguments) x adversarial      *)
(* contents; and field-name spellings over the lexer's alphabet.  A case   *)
(* is a pair of filter texts that differ only in the content of one string *)
(* literal (or the spelling of one field).  The non-interference verdict   *)
(* on the SQL the dialects emit for the pair is decided by Trace_Sql with  *)
(* the SqlLex automaton.                                                   *)
(***************************************************************************)
EXTENDS Lex, Json, SequencesExt
CONSTANT Deep        \* TRUE: additionally every content of length 1..2 over the hostile alphabet (thorough tier)
VARIABLES fam, pos, ci

s == Id0("s")  u == Id0("u")  one == IntL(1)
K == StrL(<<107>>)                                   \* another, fixed literal 'k'
C1(f, x) == Call(Id0(f), <<x>>)
C2(f, x, y) == Call(Id0(f), <<x, y>>)
Templates(L) ==
  << Cmp("eq", s, L), Cmp("ne", L, s), Cmp("lt", L, K), Cmp("in", s, Lst(<<L, K>>)), Cmp("in", s, Lst(<<L>>)),
     Cmp("in", s, Lst(<<K, L, K>>)), Cmp("in", s, Lst(<<IntL(1), L>>)),
     C2("contains", s, L), C2("contains", L, s), C2("startswith", s, L), C2("startswith", L, s),
     C2("endswith", s, L), C2("endswith", L, s), C2("contains", L, K), C2("contains", K, L),
     Cmp("eq", C2("indexof", s, L), one), Cmp("eq", C2("indexof", L, s), one),
     Cmp("eq", C2("concat", L, s), K), Cmp("eq", C2("concat", s, L), K), Cmp("eq", C2("concat", C2("concat", L, s), L), K),
     Cmp("eq", C1("length", L), one), Cmp("eq", C1("tolower", L), s), Cmp("eq", C1("toupper", L), s), Cmp("eq", C1("trim", L), s),
     Cmp("eq", C2("substring", L, one), s), Cmp("eq", Call(Id0("substring"), <<L, one, one>>), s),
     C2("contains", C1("tolower", L), s), C2("contains", s, C1("tolower", L)), C2("startswith", C1("trim", s), C2("concat", L, K)),
     C2("endswith", s, C2("substring", L, one)),
     Cmp("eq", C2("concat", Lst(<<L, K>>), Lst(<<K>>)), s), Cmp("eq", C1("length", Lst(<<L>>)), one),
     C2("hassubset", Lst(<<L, K>>), Lst(<<K>>)),
     Bool("and", Cmp("eq", s, L), Cmp("eq", u, K)), Bool("or", Cmp("eq", s, K), Un("not", Cmp("eq", u, L))),
     Cmp("eq", Cmp("eq", s, L), BoolL("true")), Cmp("eq", C1("year", L), one), Cmp("eq", C1("date", L), Lit("Date", "2020-01-01")),
     Cmp("eq", Bin("add", C1("length", L), C2("indexof", L, K)), one),
     \* a string next to operands of every other literal type (type-directed rendering must not re-interpret the string)
     Cmp("eq", C1("date", s), L), Cmp("ge", L, Lit("Date", "2020-01-01")), Cmp("lt", L, Lit("DateTime", "2020-01-01T10:00:00Z")),
     Cmp("eq", C1("time", s), L), Cmp("eq", L, Lit("Time", "10:00:00")), Cmp("eq", Lit("GUID", "123e4567-e89b-12d3-a456-426614174000"), L),
     Cmp("eq", L, one), Cmp("gt", Lit("Float", "1.5"), L), Cmp("eq", L, BoolL("true")), Cmp("eq", L, Lit("Null", "null")),
     Cmp("eq", C1("year", s), L), Cmp("in", C1("date", s), Lst(<<L, Lit("Date", "2020-01-01")>>)),
     \* an operand made of two grouped halves, the varied literal in the first, a closing parenthesis in the second
     Un("not", Bool("or", Bool("and", Cmp("eq", s, L), Cmp("eq", u, K)), Bool("and", Cmp("eq", s, StrL(<<41>>)), Cmp("eq", u, K)))),
     Bool("and", Bool("or", Cmp("eq", s, StrL(<<40>>)), Cmp("eq", u, K)), Bool("or", Cmp("eq", s, L), Cmp("eq", u, K))),
     Cmp("eq", Call(Id0("substring"), <<C2("concat", s, L), IntL(0), C2("indexof", s, K)>>), K) >>
Benign == <<120>>
Q == 39
BaseContents == << <<Q>>, <<Q, Q>>, <<120, Q>>, <<Q, 32, 79, 82, 32, Q, 49, Q, 61, Q, 49>>, <<45, 45>>, <<120, Q, 45, 45>>, <<47, 42>>, <<42, 47>>,
               <<59>>, <<Q, 59, 68, 82, 79, 80>>, <<92>>, <<92, Q>>, <<Q, 92>>, <<0>>, <<120, 0, Q>>, <<8217>>, <<65287>>, <<65282>>, <<37>>, <<95>>,
               <<37, Q>>, <<34>>, <<10>>, <<Q, 10, 45, 45>>, <<>>, <<Q, 41>>, <<Q, 32, 124, 124, 32, Q>>, <<233, 128165>>,
               \* contents shaped like literals of other types, alone and followed by a quote and SQL
               StrCps("2020-01-01"), StrCps("2020-01-01") \o <<Q, 41, 32, 79, 82, 32, 49, 61, 49, 32, 45, 45>>,
               StrCps("2020-01-01T10:00:00Z") \o <<Q>>, StrCps("10:00:00") \o <<Q, 59>>, StrCps("1") \o <<Q>>, StrCps("1.5e3") \o <<Q, 45, 45>>,
               StrCps("123e4567-e89b-12d3-a456-426614174000") \o <<Q>>, StrCps("null") \o <<Q>>, StrCps("true") \o <<Q, 32, 79, 82, 32, Q, Q, 61, Q>>,
               StrCps("P1D") \o <<Q>>,
               \* runs of adjacent quotes (an escaping rule that looks at neighbours treats them differently from isolated ones)
               \* parentheses, and text that a formatting / templating step would interpret
               <<40>>, <<41>>, <<41, 40>>, StrCps("{length}"), StrCps("{"), StrCps("{}"), StrCps("{0}"), StrCps("%s"), StrCps("%(x)s"), StrCps("$1"),
               StrCps("\\1"), StrCps(":search"), StrCps(":string"), StrCps(":s"), StrCps(":1"), StrCps("?"), StrCps("@p0"), <<Q, Q, Q>>, <<120, Q, Q, Q, 32, 79, 82, 32, 49, 61, 49, 32, 45, 45>>, <<Q, Q, Q, Q>>, <<Q, 120, Q, Q>> >>
HostileAlphabet == {Q, 92, 37, 95, 45, 59, 47, 42, 0, 120, 34, 10, 40, 41, 124, 61, 8217}
DeepContents == SetToSeq(({ <<c>> : c \in HostileAlphabet } \cup { <<c, d>> : c \in HostileAlphabet, d \in HostileAlphabet }) \ {Benign})
Contents == IF Deep THEN BaseContents \o DeepContents ELSE BaseContents
\* field-name spellings (code points): ASCII, upper case, digits, underscore, namespaced, non-ASCII word characters
FieldNames == << <<97>>, <<65>>, <<97, 49>>, <<95, 120>>, <<110, 115, 46, 102>>, <<65, 46, 66>>, <<233>>, <<65345>>, <<97, 95, 95, 98>>,
                 <<115, 101, 108, 101, 99, 116>>, <<120, 1593>> >>
FieldTpl == << <<<<>>, StrCps(" eq 1")>>, <<StrCps("1 lt "), <<>>>>, <<StrCps("tolower("), StrCps(") eq 'k'")>>,
               <<StrCps("contains("), StrCps(", 'k')")>>, <<StrCps("contains('k', "), StrCps(")")>>, <<StrCps("x in ("), StrCps(", 1)")>>,
               <<StrCps("year("), StrCps(") eq 1")>>, <<StrCps("not ("), StrCps(" eq null)")>> >>

Init == fam \in {"lit", "field"} /\ pos = 0 /\ ci = 0
Pick == /\ pos = 0
        /\ \E p \in 1..(IF fam = "lit" THEN Len(Templates(StrL(Benign))) ELSE Len(FieldTpl)),
              c \in 1..(IF fam = "lit" THEN Len(Contents) ELSE Len(FieldNames)) : pos' = p /\ ci' = c
        /\ UNCHANGED fam
Next == Pick
IsCase == pos # 0
Text1 == IF fam = "lit" THEN TextOf(Pr(Templates(StrL(Benign))[pos], "min"), SP) ELSE FieldTpl[pos][1] \o <<102, 108, 100>> \o FieldTpl[pos][2]
Text2 == IF fam = "lit" THEN TextOf(Pr(Templates(StrL(Contents[ci]))[pos], "min"), SP) ELSE FieldTpl[pos][1] \o FieldNames[ci] \o FieldTpl[pos][2]
\* the spec's own parser accepts both members of a literal pair (the variation stays inside the literal)
PairParses == (IsCase /\ fam = "lit") => (ParseText(Text1)[1] = ParseText(Text2)[1])
Export == PrintT(ToJson(IF IsCase THEN [k |-> "case", fam |-> fam, pos |-> pos, ci |-> ci, text1 |-> Text1, text2 |-> Text2]
                        ELSE [k |-> "partial"]))
=============================================================================
