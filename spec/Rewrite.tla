------------------------------ MODULE Rewrite ------------------------------
(***************************************************************************)
(* AST rewriting as the library documents it.                              *)
(*                                                                         *)
(* Subst(t, sigma): simultaneous substitution of FIELD REFERENCES.         *)
(*   A field reference is an identifier or a path in expression position.  *)
(*   For a path the longest matching prefix wins: the whole path if it is  *)
(*   a key, otherwise its owner is rewritten recursively.  Not field       *)
(*   references, hence untouched: function names, named-parameter names,   *)
(*   lambda binders, and every occurrence of a lambda-bound variable       *)
(*   (paths rooted at it included) inside that lambda's body.  Targets are *)
(*   inserted as they are (no re-substitution: simultaneous, not chained). *)
(*                                                                         *)
(* Relative(t, x): re-root every path whose root is exactly the identifier *)
(*   x one step down (x/a -> a, x/a/b -> a/b); everything else unchanged.  *)
(***************************************************************************)
EXTENDS Ast

RECURSIVE RootOf(_)
RootOf(p) == IF p[1] = "Attr" THEN RootOf(p[2]) ELSE p

\* sigma : function from key trees to target trees
RECURSIVE SubstB(_, _, _)
SubstB(t, sigma, bound) ==
  CASE t[1] = "Id"   -> IF t \in bound THEN t ELSE IF t \in DOMAIN sigma THEN sigma[t] ELSE t
    [] t[1] = "Attr" -> IF RootOf(t) \in bound THEN t
                        ELSE IF t \in DOMAIN sigma THEN sigma[t]
                        ELSE Attr(SubstB(t[2], sigma, bound), t[3])
    [] t[1] \in {"Lit", "None", "Hole"} -> t
    [] t[1] = "List" -> Lst([i \in 1..Len(t[2]) |-> SubstB(t[2][i], sigma, bound)])
    [] t[1] \in {"Bin", "Cmp", "Bool"} -> <<t[1], t[2], SubstB(t[3], sigma, bound), SubstB(t[4], sigma, bound)>>
    [] t[1] = "Un"   -> Un(t[2], SubstB(t[3], sigma, bound))
    [] t[1] = "Call" -> Call(t[2], [i \in 1..Len(t[3]) |-> SubstB(t[3][i], sigma, bound)])
    [] t[1] = "Named" -> Named(t[2], SubstB(t[3], sigma, bound))
    [] t[1] = "Lam"  -> Lam(t[2], SubstB(t[3], sigma, bound \cup {t[2]}))
    [] t[1] = "Coll" -> Coll(SubstB(t[2], sigma, bound), t[3],
                             IF t[4] = None THEN None ELSE SubstB(t[4], sigma, bound))
Subst(t, sigma) == SubstB(t, sigma, {})

RECURSIVE Relative(_, _)
Relative(t, x) ==
  CASE t[1] = "Attr" -> IF t[2] = x THEN <<"Id", <<>>, t[3]>>
                        ELSE IF t[2][1] = "Attr" THEN Attr(Relative(t[2], x), t[3]) ELSE t
    [] t[1] \in {"Id", "Lit", "None", "Hole"} -> t
    [] OTHER -> LET ks == Sub(t) IN Rebuild(t, [i \in 1..Len(ks) |-> Relative(ks[i], x)])

\* does the identifier x occur as the root of some path / as a bare reference
RECURSIVE Mentions(_, _)
Mentions(t, x) == IF t = x THEN TRUE
                  ELSE LET ks == Sub(t) IN \E i \in 1..Len(ks) : Mentions(ks[i], x)
=============================================================================
