-------------------------------- MODULE Lex --------------------------------
(***************************************************************************)
(* The lexical layer of OData $filter over code points: what the lexer     *)
(* *should* produce for a text.  Written from the OData ABNF (primitive    *)
(* literals, identifiers, RWS-delimited operator words) plus the library's *)
(* documented extensions; keyword rule: a word is a keyword only if the    *)
(* MAXIMAL word equals it (case-insensitively).                            *)
(*                                                                         *)
(*   LexText(x) = [st |-> "ok", toks |-> <<...>>]                          *)
(*              | [st |-> "lexerror", pos |-> i]     no token starts at i  *)
(*              | [st |-> "unknown"]                 outside the modelled  *)
(*                                                   alphabet: no verdict  *)
(* Tokens are those of OData.tla with names/spellings as code points.      *)
(***************************************************************************)
EXTENDS OData

Ch(x, i) == IF i >= 1 /\ i <= Len(x) THEN x[i] ELSE -1
Slice(x, i, j) == SubSeq(x, i, j - 1)          \* x[i .. j)
\* first index >= i at which P fails (or Len(x)+1)
RunEnd(x, i, P(_)) == CHOOSE j \in i..(Len(x) + 1) :
                         /\ (j = Len(x) + 1 \/ ~P(x[j]))
                         /\ \A k \in i..(j - 1) : P(x[k])
MatchCI(x, i, kw) == \A k \in 1..Len(kw) : Lower(Ch(x, i + k - 1)) = kw[k]
DigitsAt(x, i, n) == \A k \in 0..(n - 1) : IsDigit(Ch(x, i + k))
HexAt(x, i, n) == \A k \in 0..(n - 1) : IsHex(Ch(x, i + k))

OpWords == {"add", "sub", "mul", "div", "mod", "and", "or", "eq", "ne", "lt", "le", "gt", "ge", "in"}
Quote1 == 39

\* ----------------------------------------------------------------- shapes
\* each XxxEnd(x, i) is the index just after the longest match of the shape at i, or 0 if none
DateEnd(x, i) ==
  IF /\ Ch(x, i) >= 49 /\ Ch(x, i) <= 57 /\ DigitsAt(x, i + 1, 3) /\ Ch(x, i + 4) = 45
     /\ \/ (Ch(x, i + 5) = 48 /\ IsDigit(Ch(x, i + 6)))
        \/ (Ch(x, i + 5) = 49 /\ Ch(x, i + 6) \in 48..50)
     /\ Ch(x, i + 7) = 45
     /\ \/ (Ch(x, i + 8) \in 48..50 /\ IsDigit(Ch(x, i + 9)))
        \/ (Ch(x, i + 8) = 51 /\ Ch(x, i + 9) \in 48..49)
  THEN i + 10 ELSE 0
HourMinEnd(x, i) ==
  IF /\ \/ (Ch(x, i) \in 48..49 /\ IsDigit(Ch(x, i + 1)))
        \/ (Ch(x, i) = 50 /\ Ch(x, i + 1) \in 48..51)
     /\ Ch(x, i + 2) = 58 /\ Ch(x, i + 3) \in 48..53 /\ IsDigit(Ch(x, i + 4))
  THEN i + 5 ELSE 0
\* :SS[.f{1,12}]
SecondsEnd(x, i) ==
  IF Ch(x, i) = 58 /\ Ch(x, i + 1) \in 48..53 /\ IsDigit(Ch(x, i + 2))
  THEN IF Ch(x, i + 3) = 46 /\ IsDigit(Ch(x, i + 4))
       THEN LET e == RunEnd(x, i + 4, IsDigit) IN (IF e - (i + 4) > 12 THEN i + 4 + 12 ELSE e)
       ELSE i + 3
  ELSE 0
TimeEnd(x, i) == LET h == HourMinEnd(x, i) IN IF h = 0 THEN 0 ELSE SecondsEnd(x, h)
OffsetEnd(x, i) ==
  IF Lower(Ch(x, i)) = 122 THEN i + 1
  ELSE IF Ch(x, i) \in {43, 45} /\ HourMinEnd(x, i + 1) # 0 THEN i + 6 ELSE 0
DateTimeEnd(x, i) ==
  LET d == DateEnd(x, i) IN
  IF d = 0 \/ Lower(Ch(x, d)) # 116 THEN 0
  ELSE LET h == HourMinEnd(x, d + 1) IN
       IF h = 0 THEN 0
       ELSE LET s == SecondsEnd(x, h)   e1 == IF s = 0 THEN h ELSE s
                o == OffsetEnd(x, e1)
            IN IF o = 0 THEN e1 ELSE o
GuidEnd(x, i) ==
  IF HexAt(x, i, 8) /\ Ch(x, i + 8) = 45 /\ HexAt(x, i + 9, 4) /\ Ch(x, i + 13) = 45 /\ HexAt(x, i + 14, 4)
     /\ Ch(x, i + 18) = 45 /\ HexAt(x, i + 19, 4) /\ Ch(x, i + 23) = 45 /\ HexAt(x, i + 24, 12)
  THEN i + 36 ELSE 0
\* [+-]?digits
IntEnd(x, i) == LET s == IF Ch(x, i) \in {43, 45} THEN i + 1 ELSE i IN
                IF IsDigit(Ch(x, s)) THEN RunEnd(x, s, IsDigit) ELSE 0
ExpEnd(x, i) == IF Lower(Ch(x, i)) = 101
                THEN LET s == IF Ch(x, i + 1) \in {43, 45} THEN i + 2 ELSE i + 1 IN
                     IF IsDigit(Ch(x, s)) THEN RunEnd(x, s, IsDigit) ELSE 0
                ELSE 0
\* integer followed by  .digits[exp]  |  exp
DecimalEnd(x, i) ==
  LET n == IntEnd(x, i) IN
  IF n = 0 THEN 0
  ELSE IF Ch(x, n) = 46 /\ IsDigit(Ch(x, n + 1))
       THEN LET f == RunEnd(x, n + 1, IsDigit)  e == ExpEnd(x, f) IN IF e = 0 THEN f ELSE e
       ELSE ExpEnd(x, n)
\* '...' with '' as escaped quote: index after the closing quote, or 0 if unterminated
\* The real token is the regular expression  '([^']|'')*'  matched greedily WITH backtracking: when the scan runs
\* off the end of the text without a closing quote, the last doubled quote seen is split - its first quote closes
\* the literal ('s'' is the string 's' followed by a stray quote).  lastPair: position of that quote, 0 if none.
RECURSIVE StrScan(_, _, _)
StrScan(x, p, lastPair) ==
                 IF p > Len(x) THEN (IF lastPair = 0 THEN 0 ELSE lastPair + 1)
                 ELSE IF x[p] = Quote1 THEN (IF Ch(x, p + 1) = Quote1 THEN StrScan(x, p + 2, p) ELSE p + 1)
                 ELSE StrScan(x, p + 1, lastPair)
StringEnd(x, i) == IF Ch(x, i) = Quote1 THEN StrScan(x, i + 1, 0) ELSE 0
RECURSIVE Unescape(_)
Unescape(s) == IF s = <<>> THEN <<>>
               ELSE IF s[1] = Quote1 THEN <<Quote1>> \o Unescape(SubSeq(s, 3, Len(s)))   \* a doubled quote
               ELSE <<s[1]>> \o Unescape(Tail(s))
\* identifier shape:  [_A-Za-z] ( '.'? wordchar ){0,127}
RECURSIVE WordScan(_, _, _)
WordScan(x, j, n) == IF n = 0 THEN j
                     ELSE IF IsWord(Ch(x, j)) THEN WordScan(x, j + 1, n - 1)
                     ELSE IF Ch(x, j) = 46 /\ IsWord(Ch(x, j + 1)) THEN WordScan(x, j + 2, n - 1)
                     ELSE j
WordEnd(x, i) == IF IsAlpha(Ch(x, i)) \/ Ch(x, i) = 95 THEN WordScan(x, i + 1, 127) ELSE 0
\* duration body:  [+-]? P (nY)?(nM)?(nD)? ( T (nH)?(nM)?(n(.n)?S)? )?   -> index after it
NumUnit(x, i, u) == LET e == RunEnd(x, i, IsDigit) IN IF e > i /\ Upper(Ch(x, e)) = u THEN e + 1 ELSE i
SecUnit(x, i) == LET e == RunEnd(x, i, IsDigit) IN
                 IF e = i THEN i
                 ELSE IF Upper(Ch(x, e)) = 83 THEN e + 1
                 ELSE IF Ch(x, e) = 46 /\ IsDigit(Ch(x, e + 1))
                      THEN LET f == RunEnd(x, e + 1, IsDigit) IN IF Upper(Ch(x, f)) = 83 THEN f + 1 ELSE i
                      ELSE i
DurBodyEnd(x, i) ==
  LET s == IF Ch(x, i) \in {43, 45} THEN i + 1 ELSE i IN
  IF Upper(Ch(x, s)) # 80 THEN 0
  ELSE LET d == NumUnit(x, NumUnit(x, NumUnit(x, s + 1, 89), 77), 68) IN
       IF Upper(Ch(x, d)) = 84 THEN SecUnit(x, NumUnit(x, NumUnit(x, d + 1, 72), 77)) ELSE d

DurationKw == StrCps("duration'")
GeographyKw == StrCps("geography'")

\* split a word at dots
RECURSIVE SplitDots(_)
SplitDots(w) == LET d == {k \in 1..Len(w) : w[k] = 46} IN
                IF d = {} THEN <<w>>
                ELSE LET k == CHOOSE k \in d : \A m \in d : k <= m IN
                     <<SubSeq(w, 1, k - 1)>> \o SplitDots(SubSeq(w, k + 1, Len(w)))
IdTok(w) == LET parts == SplitDots(w) IN <<"id", SubSeq(parts, 1, Len(parts) - 1), parts[Len(parts)]>>

\* ----------------------------------------------------------------- one token
\* result: <<token, next>> | <<"lexerror">> | <<"unknown">>
LexOne(x, i) ==
  LET c == x[i] IN
  IF ~IsKnown(c) THEN <<"unknown">>
  ELSE IF IsSpace(c) THEN
     LET j == RunEnd(x, i, IsSpace)
         e == RunEnd(x, j, IsAlpha)
         w == LowerSeq(Slice(x, j, e))
         ops == {o \in OpWords : StrCps(o) = w}
     IN IF ops # {} /\ IsSpace(Ch(x, e))
        THEN << <<"op", CHOOSE o \in ops : TRUE>>, RunEnd(x, e, IsSpace) >>
        ELSE << <<"ws">>, j >>
  ELSE IF c = Quote1 THEN
     LET e == StringEnd(x, i) IN
     IF e = 0 THEN <<"lexerror">> ELSE << <<"lit", "String", Unescape(Slice(x, i + 1, e - 1))>>, e >>
  ELSE IF c \in {40, 41, 44, 47, 58, 61} THEN
     << <<CASE c = 40 -> "(" [] c = 41 -> ")" [] c = 44 -> "," [] c = 47 -> "/" [] c = 58 -> ":" [] c = 61 -> "=">>, i + 1 >>
  ELSE IF GuidEnd(x, i) # 0 THEN << <<"lit", "GUID", Slice(x, i, i + 36)>>, i + 36 >>
  ELSE IF IsAlpha(c) \/ c = 95 THEN
     \* duration'..' / geography'..' that do not have the shape of the literal are the WORD duration / geography
     \* followed by whatever comes next (the token alternatives are tried in turn)
     IF MatchCI(x, i, DurationKw) /\ DurBodyEnd(x, i + 9) # 0 /\ Ch(x, DurBodyEnd(x, i + 9)) = Quote1 THEN
        LET b == DurBodyEnd(x, i + 9) IN << <<"lit", "Duration", UpperSeq(Slice(x, i + 9, b))>>, b + 1 >>
     ELSE IF MatchCI(x, i, GeographyKw) /\ StringEnd(x, i + 9) # 0 THEN
        \* the body is kept verbatim: a doubled quote inside it stays doubled (unlike in a string literal)
        LET e == StringEnd(x, i + 9) IN << <<"lit", "Geography", Slice(x, i + 10, e - 1)>>, e >>
     ELSE
        LET e == WordEnd(x, i)
            w == Slice(x, i, e)
            lw == LowerSeq(w)
        IN IF IsWord(Ch(x, e)) \/ (Ch(x, e) = 46 /\ IsWord(Ch(x, e + 1))) THEN <<"unknown">>   \* over the length limit
           ELSE IF lw = StrCps("true") \/ lw = StrCps("false") THEN << <<"lit", "Boolean", w>>, e >>
           ELSE IF lw = StrCps("null") THEN << <<"lit", "Null", StrCps("null")>>, e >>
           ELSE IF lw = StrCps("any") THEN << <<"any">>, e >>
           ELSE IF lw = StrCps("all") THEN << <<"all">>, e >>
           ELSE IF lw = StrCps("not") /\ IsSpace(Ch(x, e)) THEN << <<"not">>, RunEnd(x, e, IsSpace) >>
           ELSE << IdTok(w), e >>
  ELSE IF IsDigit(c) \/ (c \in {43, 45} /\ IsDigit(Ch(x, i + 1))) THEN
     IF DateTimeEnd(x, i) # 0 THEN << <<"lit", "DateTime", Slice(x, i, DateTimeEnd(x, i))>>, DateTimeEnd(x, i) >>
     ELSE IF DateEnd(x, i) # 0 THEN << <<"lit", "Date", Slice(x, i, i + 10)>>, i + 10 >>
     ELSE IF TimeEnd(x, i) # 0 THEN << <<"lit", "Time", Slice(x, i, TimeEnd(x, i))>>, TimeEnd(x, i) >>
     ELSE IF DecimalEnd(x, i) # 0 THEN << <<"lit", "Float", Slice(x, i, DecimalEnd(x, i))>>, DecimalEnd(x, i) >>
     ELSE << <<"lit", "Integer", Slice(x, i, IntEnd(x, i))>>, IntEnd(x, i) >>
  ELSE IF c = 45 THEN << <<"neg">>, i + 1 >>
  ELSE IF c = 43 /\ i < Len(x) /\ ~IsKnown(x[i + 1]) THEN <<"unknown">>     \* a sign before a non-ASCII (possibly digit) character
  ELSE <<"lexerror">>

RECURSIVE LexFrom(_, _, _)
LexFrom(x, i, acc) ==
  IF i > Len(x) THEN [st |-> "ok", toks |-> acc]
  ELSE LET r == LexOne(x, i) IN
       IF r = <<"lexerror">> THEN [st |-> "lexerror", pos |-> i, toks |-> acc]
       ELSE IF r = <<"unknown">> THEN [st |-> "unknown", toks |-> acc]
       ELSE LexFrom(x, r[2], Append(acc, r[1]))
LexText(x) == LexFrom(x, 1, <<>>)

\* text -> outcome:  <<"ok", tree>> | <<"syntax">> | <<"token">> | <<"unknown", name>> | <<"argc", ...>> | <<"noverdict">>
ParseText(x) ==
  LET l == LexText(x) IN
  IF l.st = "unknown" THEN <<"noverdict">>
  ELSE IF l.st = "lexerror" THEN <<"token">>
  ELSE ParseTokens(l.toks)

\* ----------------------------------------------------------------- string trees -> code-point trees
RECURSIVE TreeCps(_)
LitCps(k, v) == CASE k = "Integer" -> IntCps(v)
                  [] k = "String" -> v
                  [] OTHER -> StrCps(v)
TreeCps(t) ==
  CASE t[1] = "Id"   -> <<"Id", [i \in 1..Len(t[2]) |-> StrCps(t[2][i])], StrCps(t[3])>>
    [] t[1] = "Lit"  -> <<"Lit", t[2], LitCps(t[2], t[3])>>
    [] t[1] = "Attr" -> <<"Attr", TreeCps(t[2]), StrCps(t[3])>>
    [] t[1] = "None" -> t
    [] OTHER -> LET ks == Sub(t) IN Rebuild(t, [i \in 1..Len(ks) |-> TreeCps(ks[i])])

\* text of a token sequence whose names are TLA+ strings (printer output on generator trees);
\* w : code points used for every whitespace run
RECURSIVE JoinDots(_)
JoinDots(parts) == IF Len(parts) = 1 THEN StrCps(parts[1]) ELSE StrCps(parts[1]) \o <<46>> \o JoinDots(Tail(parts))
LitText(k, v) ==
  CASE k = "Integer"   -> IntCps(v)
    [] k = "String"    -> <<Quote1>> \o EscapeQuotes(v) \o <<Quote1>>
    [] k = "Duration"  -> StrCps("duration'") \o StrCps(v) \o <<Quote1>>
    [] k = "Geography" -> StrCps("geography'") \o StrCps(v) \o <<Quote1>>
    [] OTHER -> StrCps(v)
TokText(tok, w) ==
  CASE tok[1] = "id"  -> JoinDots(tok[2] \o <<tok[3]>>)
    [] tok[1] = "lit" -> LitText(tok[2], tok[3])
    [] tok[1] = "op"  -> w \o StrCps(tok[2]) \o w
    [] tok[1] = "not" -> StrCps("not") \o w
    [] tok[1] = "neg" -> <<45>>
    [] tok[1] = "ws"  -> w
    [] OTHER -> StrCps(tok[1])
\* (by halving, so that texts of thousands of tokens cost n log n rather than n^2 copies)
RECURSIVE TextOf(_, _)
TextOf(toks, w) == IF Len(toks) = 0 THEN <<>>
                   ELSE IF Len(toks) = 1 THEN TokText(toks[1], w)
                   ELSE LET h == Len(toks) \div 2 IN TextOf(SubSeq(toks, 1, h), w) \o TextOf(SubSeq(toks, h + 1, Len(toks)), w)
SP == <<32>>
=============================================================================
