INIT Init
NEXT Next
CONSTANTS
  MaxOps = 1
  CpsMode = TRUE
INVARIANT SpecReadsLayout
INVARIANT Export
CHECK_DEADLOCK FALSE
