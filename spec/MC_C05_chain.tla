--------------------------- MODULE MC_C05_chain ---------------------------
(***************************************************************************)
(* C05 generator for LONG operator runs, which the depth-bounded machine   *)
(* MC_C05 cannot reach: a chain of K1 applications of operator o1 followed *)
(* by K2 applications of operator o2, nested to the left (the grouping the *)
(* grammar gives an unparenthesised run) or to the right (which the        *)
(* printers must parenthesise at every level).  "Binary operators          *)
(* associate to the left" is a statement about runs of every length, so    *)
(* the lengths are a constant of the model, not a depth bound.             *)
(***************************************************************************)
EXTENDS OData, Json
CONSTANTS Lens1, Lens2, Mixed
VARIABLES t, n

Leaf(i) == IF i % 3 = 0 THEN Id0("a") ELSE IF i % 3 = 1 THEN Id0("b") ELSE IntL(1)
Ops == BinOps \ {"in"}
RECURSIVE Grow(_, _, _, _, _)
\* apply operator o to the tree k more times; operand index i keeps neighbouring leaves distinct
Grow(tr, o, k, dir, i) ==
  IF k = 0 THEN tr
  ELSE Grow(IF dir = "L" THEN BinNode(o, tr, Leaf(i)) ELSE BinNode(o, Leaf(i), tr), o, k - 1, dir, i + 1)
Chain(o1, o2, k1, k2, dir) == Grow(Grow(Leaf(0), o1, k1, dir, 1), o2, k2, dir, k1 + 1)
Second(o1) == IF Mixed THEN Ops ELSE {o1, IF o1 = "and" THEN "or" ELSE "and"}

\* staged so that TLC's workers share the work (successors of distinct states are generated in parallel):
\* stage 1 picks <<o1, dir, k1>>, stage 2 picks <<o2, k2>> and builds the tree
Init == \E o1 \in Ops, dir \in {"L", "R"}, k1 \in Lens1 : t = <<"pick", o1, dir, k1>> /\ n = 0
Next == /\ t[1] = "pick"
        /\ \E k2 \in Lens2 : \E o2 \in (IF k2 = 0 THEN {t[2]} ELSE Second(t[2])) :
             /\ t' = Chain(t[2], o2, t[4], k2, t[3])
             /\ n' = t[4] + k2
Complete == t[1] # "pick"

RoundTripMin  == Complete => SpecParse(Pr(t, "min")) = t
RoundTripFull == Complete => SpecParse(Pr(t, "full")) = t
RoundTripBws  == Complete => SpecParse(Pr(t, "bws")) = t
RoundTripFullBws == Complete => SpecParse(Pr(t, "fullbws")) = t

Export == PrintT(ToJson(IF Complete
            THEN [k |-> "case", tree |-> t, nops |-> n,
                  min |-> Spell(Pr(t, "min"), " "), full |-> Spell(Pr(t, "full"), " "),
                  bws |-> Spell(Pr(t, "bws"), " "), fullbws |-> Spell(Pr(t, "fullbws"), " ")]
            ELSE [k |-> "partial"]))
=============================================================================
