INIT Init
NEXT Next
CONSTANTS
  MaxOps = 1
  Wide = TRUE
  CpsMode = FALSE
INVARIANT EveryNodeOnce
INVARIANT AbsentOverrideIsIdentity
INVARIANT Export
CHECK_DEADLOCK FALSE
