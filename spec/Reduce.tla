------------------------------- MODULE Reduce -------------------------------
(***************************************************************************)
(* The order in which the LALR parser builds AST nodes.                    *)
(*                                                                         *)
(* Every reduction of the real parser whose semantic action creates a new  *)
(* node is an event; ReduceTrace(t) is the event sequence the grammar's    *)
(* structure prescribes for an input that parses to t:                     *)
(*   - operators: left operand, right operand, then the node (bottom-up,   *)
(*     left to right); parentheses and unit productions create nothing;    *)
(*   - lists: the items, then the List node; a call with two or more       *)
(*     positional arguments goes through the list production, so its       *)
(*     arguments first appear as a List node, then as the Call;            *)
(*   - named parameters: value, then the NamedParam node;                  *)
(*   - paths are RIGHT-recursive in the grammar (member_expr after "/"),   *)
(*     so a path n1/../nk is built from its tail: nk-1/nk first, then each *)
(*     longer suffix, re-nested to the left every time;                    *)
(*   - a collection lambda: the body, the Lambda node, then one            *)
(*     CollectionLambda per owner suffix, innermost (nk) first.            *)
(* This mirrors how the implementation works (it is not how the reference  *)
(* parser machine of OData.tla builds paths); the trace specification      *)
(* Trace_Reduce checks the recorded reductions against it.                 *)
(***************************************************************************)
EXTENDS Ast

RECURSIVE Names(_)
Names(p) == IF p[1] = "Attr" THEN Append(Names(p[2]), p[3]) ELSE <<p[3]>>
RECURSIVE RootId(_)
RootId(p) == IF p[1] = "Attr" THEN RootId(p[2]) ELSE p
\* left-nested path over names[j..k]; the original root identifier (with its namespace) only survives for j = 1, k <= 2
Suffix(p, j) == LET ns == Names(p)  k == Len(ns)
                    root == IF j = 1 THEN RootId(p) ELSE <<"Id", <<>>, ns[j]>>
                    F[i \in j..k] == IF i = j THEN root ELSE Attr(F[i - 1], ns[i])
                IN F[k]
PathEvents(p) == LET k == Len(Names(p)) IN [i \in 1..(k - 1) |-> Suffix(p, k - i)]

RECURSIVE RT(_), RTSeq(_)
RTSeq(xs) == IF Len(xs) = 0 THEN <<>> ELSE RT(xs[1]) \o RTSeq(Tail(xs))
RT(t) ==
  CASE t[1] \in {"Id", "Lit", "None"} -> <<>>
    [] t[1] = "Attr" -> PathEvents(t)
    [] t[1] = "List" -> RTSeq(t[2]) \o <<t>>
    [] t[1] \in {"Bin", "Cmp", "Bool"} -> RT(t[3]) \o RT(t[4]) \o <<t>>
    [] t[1] = "Un" -> RT(t[3]) \o <<t>>
    [] t[1] = "Named" -> RT(t[3]) \o <<t>>
    [] t[1] = "Call" -> RTSeq(t[3])
                        \o (IF Len(t[3]) >= 2 /\ t[3][1][1] # "Named" THEN <<Lst(t[3])>> ELSE <<>>)
                        \o <<t>>
    [] t[1] = "Lam" -> RT(t[3]) \o <<t>>
    [] t[1] = "Coll" -> (IF t[4] = None THEN <<>> ELSE RT(t[4]))
                        \o LET k == Len(Names(t[2])) IN [i \in 1..k |-> Coll(Suffix(t[2], k + 1 - i), t[3], t[4])]
ReduceTrace(t) == RT(t)
=============================================================================
