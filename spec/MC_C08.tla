------------------------------ MODULE MC_C08 ------------------------------
(***************************************************************************)
(* C08 case generator: filter skeletons with one or two literal holes x    *)
(* pairs of literal assignments of the hole's kind (strings with SQL       *)
(* metacharacters, numbers incl. values beyond 64 bits, dates, date-times, *)
(* durations, GUIDs, list elements).  A case is two filter texts that      *)
(* differ only in literal values, plus the values' spellings.  The verdict *)
(* on what the ORM backends compile (identical SQL text, values only in    *)
(* the parameter list) is decided by Trace_Params.                         *)
(***************************************************************************)
EXTENDS Lex, Json
CONSTANT LongN        \* how many of the long-list skeletons to include (0..3)
VARIABLES tp, vp

S(x) == StrCps(x)
Q == 39
\* skeletons: <<kind, pieces>> ; pieces alternate text / hole index (1 = A, 2 = B)
TX(x) == <<"t", StrCps(x)>>
HA == <<"h", 1>>
HB == <<"h", 2>>
\* long in-lists (drivers and databases have limits of 999 / 1000 / 2100 host parameters or list items; "every
\* value is a bound parameter" must not stop holding beyond them): N fixed fillers after the varied element
RECURSIVE IntFill(_)
IntFill(k) == IF k = 0 THEN <<>> ELSE IntFill(k - 1) \o <<44, 32>> \o NatCps(k)
RECURSIVE StrFill(_)
StrFill(k) == IF k = 0 THEN <<>> ELSE StrFill(k - 1) \o <<44, 32, Q, 107>> \o NatCps(k) \o <<Q>>
LongSkeletons ==
  << <<"IntegerLong", <<TX("n in ("), HA, <<"t", IntFill(1000)>>, TX(")")>>>>,
     <<"StringLong", <<TX("s in ("), HA, <<"t", StrFill(1000)>>, TX(")")>>>>,
     <<"IntegerLong", <<TX("not (n in ("), HA, <<"t", IntFill(2100)>>, TX(")) or cs/any(x: x/n in ("), HB, <<"t", IntFill(1200)>>, TX("))")>>>> >>
Skeletons == SubSeq(LongSkeletons, 1, LongN) \o
  << <<"Integer", <<TX("n eq "), HA>>>>, <<"Integer", <<HA, TX(" lt n")>>>>, <<"Integer", <<TX("n in ("), HA, TX(", "), HB, TX(")")>>>>,
     <<"Integer", <<TX("n add "), HA, TX(" gt "), HB>>>>, <<"Integer", <<TX("n eq "), HA, TX(" add "), HB>>>>,
     <<"Integer", <<TX("("), HA, TX(" add "), HB, TX(") mul 2 lt n")>>>>, <<"Integer", <<TX("n mod "), HA, TX(" eq "), HB>>>>,
     <<"Integer", <<TX("cs/any(x: x/n eq "), HA, TX(")")>>>>, <<"Integer", <<TX("a/p eq "), HA, TX(" or n in ("), HB, TX(",)")>>>>,
     <<"Integer", <<TX("substring(s, "), HA, TX(") eq 'k'")>>>>, <<"Integer", <<TX("length(s) eq "), HA, TX(" sub "), HB>>>>,
     <<"Float", <<TX("f lt "), HA>>>>, <<"Float", <<TX("ceiling(f mul "), HA, TX(") eq 3")>>>>, <<"Float", <<TX("floor(f add "), HA, TX(") gt "), HB>>>>,
     <<"Integer", <<TX("round(f div "), HA, TX(") eq "), HB>>>>, <<"Float", <<TX("f mul "), HA, TX(" gt "), HB>>>>, <<"Float", <<TX("round(f) eq "), HA>>>>,
     <<"String", <<TX("s eq "), HA>>>>, <<"String", <<HA, TX(" eq concat(s, "), HB, TX(")")>>>>,
     \* literals in both argument positions, and a regular expression with an inline flag
     <<"String", <<TX("contains('hello world', "), HA, TX(")")>>>>, <<"String", <<TX("startswith("), HA, TX(", "), HB, TX(") or s eq 'k'")>>>>,
     <<"Pattern", <<TX("matchesPattern(s, "), HA, TX(")")>>>>, <<"Integer", <<TX("b eq "), HA>>>>, <<"Integer", <<HA, TX(" ne b or b eq "), HB>>>>, <<"String", <<HA, TX(" eq substring(s, 2)")>>>>,
     <<"String", <<TX("not ("), HA, TX(" ne tolower(concat("), HB, TX(", s)))")>>>>, <<"Integer", <<HA, TX(" eq indexof(s, 'wi')")>>>>,
     <<"String", <<TX("2 eq indexof(s, "), HA, TX(")")>>>>, <<"String", <<TX("contains(s, "), HA, TX(")")>>>>, <<"String", <<TX("startswith(s, "), HA, TX(")")>>>>,
     <<"String", <<TX("endswith(s, "), HA, TX(") eq true")>>>>, <<"String", <<TX("concat(s, "), HA, TX(") eq "), HB>>>>,
     <<"String", <<TX("indexof(s, "), HA, TX(") eq 1")>>>>, <<"String", <<TX("s in ("), HA, TX(", "), HB, TX(")")>>>>,
     <<"String", <<TX("tolower("), HA, TX(") eq s")>>>>, <<"String", <<TX("substring(s, 1) eq "), HA>>>>,
     <<"String", <<TX("a/name eq "), HA, TX(" and cs/any(x: x/s ne "), HB, TX(")")>>>>, <<"String", <<TX("not (trim(s) eq "), HA, TX(")")>>>>,
     <<"Date", <<TX("dd eq "), HA>>>>, <<"Date", <<TX("dd in ("), HA, TX(",)")>>>>, <<"Date", <<TX("date(d) lt "), HA>>>>,
     <<"DateTime", <<TX("d gt "), HA>>>>, <<"DateTime", <<TX("year(d) eq 2031 and d lt "), HA>>>>,
     <<"Time", <<TX("tt lt "), HA>>>>,
     <<"Duration", <<TX("du eq "), HA>>>>, <<"Duration", <<TX("d add "), HA, TX(" gt d")>>>>,
     <<"GUID", <<TX("gid eq "), HA>>>>, <<"GUID", <<TX("gid in ("), HA, TX(", "), HB, TX(")")>>>>,
     \* a fixed literal that coincides with the varied one in one of the two texts only (first value of the kind's first pair)
     <<"DateTime", <<TX("d ge "), HA, TX(" and d lt 2031-07-03T07:31:03Z")>>>>, <<"Date", <<TX("dd ge "), HA, TX(" and dd le 2031-07-03")>>>>,
     <<"Time", <<TX("tt ge "), HA, TX(" or tt eq 07:31:03")>>>>, <<"Duration", <<TX("du gt "), HA, TX(" or du eq duration'P73D'")>>>>,
     <<"Integer", <<TX("n ge "), HA, TX(" and n le 7301")>>>>, <<"String", <<TX("s eq "), HA, TX(" or u eq 'q7x'")>>>>,
     <<"GUID", <<TX("gid eq "), HA, TX(" or gid eq 73017301-89ab-cdef-0123-456789abcdef")>>>> >>
\* value pairs per kind: <<spelling A, spelling B>> for the first member, and the same for the second member
StrSp(c) == <<Q>> \o EscapeQuotes(c) \o <<Q>>
Values ==
  [ Integer |-> << <<S("7301"), S("7302")>>, <<S("0"), S("1")>>, <<S("-5"), S("18446744073709551615")>>,
                   <<S("9223372036854775807"), S("9223372036854775808")>>, <<S("18446744073709551614"), S("42")>> >>,
    IntegerLong |-> << <<S("7301"), S("7302")>>, <<S("-5"), S("18446744073709551615")>> >>,
    StringLong |-> << <<StrSp(<<97, Q, 98>>), StrSp(S("c;--"))>> >>,
    Float |-> << <<S("7301.5"), S("0.25")>>, <<S("1e3"), S("2.5E-2")>>, <<S("0.0"), S("7.5")>>, <<S("-0.0"), S("0e0")>> >>,
    String |-> << <<StrSp(S("q7x")), StrSp(S("zz9"))>>, <<StrSp(<<97, Q, 98>>), StrSp(S("c;--"))>>, <<StrSp(S("%")), StrSp(S("_"))>>,
                  <<StrSp(<<>>), StrSp(S("x"))>>, <<StrSp(S("' OR '1'='1")), StrSp(<<92, 34>>)>>, <<StrSp(S("plain")), StrSp(S("with%wild"))>>,
                  \* both need LIKE escaping, and they contain the usual escape characters themselves
                  <<StrSp(S("a/b%")), StrSp(S("50%"))>>, <<StrSp(<<47, 95>>), StrSp(<<92, 37, 126>>)>> >>,
    Pattern |-> << <<StrSp(S("(?i)abc")), StrSp(S("abc"))>>, <<StrSp(S("^a.*z$")), StrSp(S("(?s)q7x"))>> >>,
    Date |-> << <<S("2031-07-03"), S("1999-12-31")>> >>,
    DateTime |-> << <<S("2031-07-03T07:31:03Z"), S("1999-12-31T23:59:59Z")>>, <<S("2031-07-03T07:31"), S("2000-01-01T00:00:00+01:00")>> >>,
    Time |-> << <<S("07:31:03"), S("23:59:59.5")>> >>,
    Duration |-> << <<S("duration'P73D'"), S("duration'PT5M'")>>, <<S("duration'-P1DT2H'"), S("duration'P1Y'")>>, <<S("duration'PT0S'"), S("duration'P1D'")>> >>,
    \* the "empty" values of their kinds (nil GUID, all-ones GUID, zero duration, zero float) against ordinary ones
    GUID |-> << <<S("73017301-89ab-cdef-0123-456789abcdef"), S("00000000-0000-0000-0000-000000000001")>>,
                <<S("00000000-0000-0000-0000-000000000000"), S("ffffffff-ffff-ffff-ffff-ffffffffffff")>>,
                <<S("73017301-89AB-CDEF-0123-456789ABCDEF"), S("00000000-0000-0000-0000-000000000000")>> >> ]

Init == tp = 0 /\ vp = 0
Pick == /\ tp = 0 /\ \E t \in 1..Len(Skeletons) : \E v \in 1..Len(Values[Skeletons[t][1]]) : tp' = t /\ vp' = v
Next == Pick
IsCase == tp # 0
RECURSIVE Fill(_, _, _)
Fill(pieces, a, b) == IF Len(pieces) = 0 THEN <<>>
                      ELSE (IF pieces[1][1] = "t" THEN pieces[1][2] ELSE IF pieces[1][2] = 1 THEN a ELSE b) \o Fill(Tail(pieces), a, b)
Pair == Values[Skeletons[tp][1]][vp]
\* member 1 uses (A, B) = (first, second) spelling, member 2 swaps them: both members exercise both values
Text1 == Fill(Skeletons[tp][2], Pair[1], Pair[2])
Text2 == Fill(Skeletons[tp][2], Pair[2], Pair[1])
HasB == \E i \in 1..Len(Skeletons[tp][2]) : Skeletons[tp][2][i] = HB
\* (long-list cases: checked by the real parser only -- the per-code-point spec lexer is quadratic in the text length)
IsLong == Skeletons[tp][1] \in {"IntegerLong", "StringLong"}
BothParse == (IsCase /\ ~IsLong) => (ParseText(Text1)[1] = "ok" /\ ParseText(Text2)[1] = "ok")
Export == PrintT(ToJson(IF IsCase THEN [k |-> "case", kind |-> Skeletons[tp][1], tp |-> tp, vp |-> vp, text1 |-> Text1, text2 |-> Text2,
                                          a |-> Pair[1], b |-> Pair[2], hasb |-> HasB]
                        ELSE [k |-> "partial"]))
=============================================================================
