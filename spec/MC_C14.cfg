INIT Init
NEXT Next
CONSTANTS
  MaxOps = 1
  CpsMode = FALSE
INVARIANT EmptyIsIdentity
INVARIANT BijectionRoundTrip
INVARIANT Export
CHECK_DEADLOCK FALSE
