------------------------------ MODULE MC_C12 ------------------------------
(***************************************************************************)
(* C12 case generator: every construct the parser can produce (all literal *)
(* kinds, unary minus, paths, lambdas, named parameters, every built-in    *)
(* function, list-typed arguments, custom namespaces) planted in every     *)
(* operand position that accepts its type (comparison side, arithmetic     *)
(* operand, function argument, list element, lambda body, `not` operand,   *)
(* top level).  Exported with the inventory of fields and literals that a  *)
(* complete translation has to represent, and with the outcome classes the *)
(* contract allows per backend (Allowed).                                  *)
(***************************************************************************)
EXTENDS Lex, Json
VARIABLES ty, cons, ctxt

C1(f, x) == Call(Id0(f), <<x>>)
C2(f, x, y) == Call(Id0(f), <<x, y>>)
G(f, args) == Call(Id(<<"geo">>, f), args)
P(root, segs) == LET F[i \in 0..Len(segs)] == IF i = 0 THEN Id0(root) ELSE Attr(F[i - 1], segs[i]) IN F[Len(segs)]
SLit == StrL(StrCps("q7x"))
ILit == IntL(7301)
FLit == Lit("Float", "7301.5")
TLit == Lit("DateTime", "2031-07-03T07:31:03Z")
DLit == Lit("Date", "2031-07-03")
TMLit == Lit("Time", "07:31:03")
DULit == Lit("Duration", "P73D")
GLit == Lit("GUID", "73017301-89ab-cdef-0123-456789abcdef")
GEOLit == Lit("Geography", "POINT(73 31)")
n == Id0("n")  f == Id0("f")  s == Id0("s")  b == Id0("b")  d == Id0("d")  dd == Id0("dd")  tt == Id0("tt")
du == Id0("du")  gid == Id0("gid")  g == Id0("g")  l == Id0("l")  x == Id0("x")
Types == {"B", "I", "F", "S", "T", "D", "TM", "DU", "G", "GEO", "L", "N"}
Cons(t) ==
  CASE t = "I" -> { ILit, IntL(-7301), Un("neg", n), C1("length", s), C2("indexof", s, SLit), C1("year", d), C1("month", d), C1("day", d),
                    C1("hour", d), C1("minute", d), C1("second", d), C1("totaloffsetminutes", d), Bin("add", n, ILit), Bin("mod", n, ILit),
                    Bin("mul", n, ILit), P("a", <<"p">>), P("a", <<"b", "c">>),
                    \* a second relationship into the same model, alone and next to the first
                    P("a2", <<"p">>), Bin("add", P("a", <<"p">>), P("a2", <<"p">>)), Bin("sub", P("a2", <<"b", "c">>), P("a", <<"b", "c">>)), C1("length", l), C1("length", Lst(<<ILit, IntL(7302)>>)),
                    \* built-ins called with named parameters (names a handler may or may not know)
                    Call(Id0("length"), <<Named(Id0("field"), s)>>), Call(Id0("length"), <<Named(Id0("arg"), s)>>),
                    Call(Id0("indexof"), <<Named(Id0("text"), s), Named(Id0("search"), SLit)>>) }
    [] t = "F" -> { FLit, Lit("Float", "7.301e3"), C1("round", f), C1("floor", f), C1("ceiling", f), C1("fractionalseconds", d), C1("totalseconds", du),
                    G("distance", <<g, GEOLit>>), G("length", <<g>>), Bin("div", f, FLit), Bin("sub", f, FLit) }
    [] t = "S" -> { SLit, StrL(<<113, 39, 55, 120>>), C1("tolower", s), C1("toupper", s), C1("trim", s), C2("concat", s, SLit), C2("substring", s, ILit),
                    Call(Id0("substring"), <<s, IntL(1), ILit>>), P("a", <<"name">>),
                    Call(Id0("tolower"), <<Named(Id0("value"), s)>>), Call(Id0("tolower"), <<Named(Id0("field"), s)>>),
                    \* the same parameter twice: both literals have to survive (or the call is refused)
                    Call(Id0("substring"), <<Named(Id0("fullstr"), s), Named(Id0("index"), ILit), Named(Id0("index"), IntL(7302))>>),
                    Call(Id0("substring"), <<s, Named(Id0("index"), ILit), Named(Id0("nchars"), IntL(7302))>>) }
    [] t = "B" -> { BoolL("true"), b, C2("contains", s, SLit), C2("startswith", s, SLit), C2("endswith", s, SLit), C2("matchesPattern", s, SLit),
                    C2("hassubset", l, Lst(<<ILit, IntL(7302)>>)), C2("hassubsequence", l, Lst(<<ILit, IntL(7302)>>)), G("intersects", <<g, GEOLit>>),
                    Cmp("eq", n, ILit), Cmp("ne", s, NullL), Cmp("in", n, Lst(<<ILit, IntL(7302)>>)), Cmp("in", s, Lst(<<SLit>>)), Un("not", b),
                    \* a literal on the LEFT of `in`, fields among the members
                    \* an empty search string (the field and the call are still there)
                    C2("contains", s, StrL(<<>>)), C2("startswith", s, StrL(<<>>)), C2("endswith", P("a", <<"name">>), StrL(<<>>)),
                    Cmp("in", ILit, Lst(<<n, IntL(7302)>>)), Cmp("in", SLit, Lst(<<s, StrL(StrCps("q8y"))>>)),
                    Call(Id0("contains"), <<Named(Id0("haystack"), s), Named(Id0("needle"), SLit)>>),
                    Call(Id0("contains"), <<Named(Id0("field"), s), Named(Id0("substr"), SLit)>>),
                    Coll(Id0("cs"), "any", None), Coll(Id0("cs"), "any", Lam(x, Cmp("eq", P("x", <<"n">>), ILit))),
                    Coll(Id0("cs"), "all", Lam(x, Cmp("gt", P("x", <<"n">>), ILit))), Coll(P("a", <<"cs">>), "any", None),
                    Bool("and", Cmp("lt", n, ILit), Cmp("ge", f, FLit)), Bool("or", b, Cmp("eq", s, SLit)),
                    Call(Id(<<"f">>, "g"), <<Named(Id0("k"), ILit)>>), Call(Id(<<"f">>, "g"), <<ILit, SLit>>) }
    [] t = "T" -> { TLit, Lit("DateTime", "2031-07-03T07:31"), Lit("DateTime", "2031-07-03T07:31:03.250+02:00"), Lit("DateTime", "2031-07-03T07:31:03-05:30"), d, Call(Id0("now"), <<>>), Call(Id0("mindatetime"), <<>>), Call(Id0("maxdatetime"), <<>>),
                    Bin("add", d, DULit), Bin("sub", d, DULit) }
    [] t = "D" -> { DLit, C1("date", d), dd }
    [] t = "TM" -> { TMLit, C1("time", d), tt }
    [] t = "DU" -> { DULit, Lit("Duration", "-P1Y2M3DT4H5M73.5S"), Lit("Duration", "PT0S"), du, Bin("sub", d, TLit) }
    [] t = "G" -> { GLit, gid }
    [] t = "GEO" -> { GEOLit }
    [] t = "L" -> { Lst(<<ILit, IntL(7302)>>), Lst(<<SLit>>), l, C2("concat", l, Lst(<<ILit>>)), C2("substring", l, IntL(1)) }
    [] t = "N" -> { NullL }
H == Hole("h")
FieldOf(t) == CASE t = "I" -> n [] t = "F" -> f [] t = "S" -> s [] t = "B" -> b [] t = "T" -> d [] t = "D" -> dd [] t = "TM" -> tt
                [] t = "DU" -> du [] t = "G" -> gid [] t = "GEO" -> g [] t = "L" -> l [] t = "N" -> n
Ctxs(t) ==
  (IF t \in {"L"} THEN {} ELSE { <<"cmp-left", Cmp("eq", H, FieldOf(t))>>, <<"cmp-right", Cmp("ne", FieldOf(t), H)>> })
  \cup (IF t \in {"L", "B", "N", "GEO"} THEN {} ELSE { <<"cmp-order", Cmp("lt", H, FieldOf(t))>>, <<"list-element", Cmp("in", FieldOf(t), Lst(<<H, H>>))>>,
                                                  <<"list-singleton", Cmp("in", FieldOf(t), Lst(<<H>>))>>,
                                                  <<"in-left", Cmp("in", H, Lst(<<FieldOf(t), FieldOf(t)>>))>> })
  \* ill-typed but parser-producible: a non-string construct as the pattern of a string function
  \cup (IF t \in {"I", "F", "B", "T", "D", "TM", "DU", "G"} THEN { <<"illtyped-contains2", C2("contains", s, H)>>, <<"illtyped-endswith2", C2("endswith", s, H)>>,
                                                                  <<"illtyped-startswith1", C2("startswith", H, SLit)>> } ELSE {})
  \cup { <<"custom-arg", Call(Id(<<"f">>, "g"), <<H>>)>>, <<"named-arg", Call(Id(<<"f">>, "g"), <<Named(Id0("k"), H)>>)>> }
  \cup (CASE t = "B" -> { <<"top", H>>, <<"not-operand", Un("not", H)>>, <<"and-operand", Bool("and", H, Cmp("eq", n, IntL(1)))>>,
                         <<"or-operand", Bool("or", Cmp("eq", n, IntL(1)), H)>>, <<"lambda-body", Coll(Id0("cs"), "any", Lam(Id0("y"), H))>>,
                         <<"cmp-true", Cmp("eq", H, BoolL("true"))>> }
          [] t \in {"I", "F"} -> { <<"arith-left", Cmp("gt", Bin("add", H, IntL(1)), IntL(0))>>, <<"arith-right", Cmp("lt", Bin("mul", IntL(2), H), IntL(9))>>,
                                   <<"neg-operand", Cmp("lt", Un("neg", H), IntL(0))>>, <<"fn-arg-round", Cmp("eq", C1("round", H), IntL(1))>> }
                                 \cup (IF t = "I" THEN { <<"fn-arg-substring", Cmp("eq", C2("substring", s, H), StrL(<<97>>))>> } ELSE {})
          [] t = "S" -> { <<"fn-arg-tolower", Cmp("eq", C1("tolower", H), StrL(<<97>>))>>, <<"fn-arg-contains1", C2("contains", H, StrL(<<97>>))>>,
                          <<"fn-arg-contains2", C2("contains", s, H)>>, <<"fn-arg-concat", Cmp("eq", C2("concat", H, s), StrL(<<97>>))>>,
                          <<"fn-arg-length", Cmp("eq", C1("length", H), IntL(1))>>, <<"fn-arg-indexof2", Cmp("eq", C2("indexof", s, H), IntL(1))>>,
                          <<"fn-arg-startswith2", C2("startswith", s, H)>>, <<"fn-arg-endswith2", C2("endswith", s, H)>> }
          [] t = "T" -> { <<"fn-arg-year", Cmp("eq", C1("year", H), IntL(2031))>>, <<"fn-arg-date", Cmp("eq", C1("date", H), DLit)>>,
                          <<"arith-left", Cmp("gt", Bin("add", H, DULit), d)>> }
          [] t = "DU" -> { <<"arith-right", Cmp("gt", Bin("add", d, H), d)>>, <<"fn-arg-totalseconds", Cmp("gt", C1("totalseconds", H), IntL(1))>> }
          [] t = "L" -> { <<"fn-arg-length", Cmp("eq", C1("length", H), IntL(1))>>, <<"fn-arg-hassubset", C2("hassubset", l, H)>>, <<"in-rhs", Cmp("in", n, H)>> }
          \* the null literal outside `eq null` / `ne null`: list member, left of `in`, function argument, arithmetic operand, lambda body
          [] t = "N" -> { <<"list-element", Cmp("in", n, Lst(<<IntL(1), H>>))>>, <<"in-left", Cmp("in", H, Lst(<<n, IntL(1)>>))>>,
                          <<"not-in-list", Un("not", Cmp("in", s, Lst(<<SLit, H>>)))>>,
                          <<"fn-arg-tolower", Cmp("eq", C1("tolower", H), StrL(<<97>>))>>, <<"fn-arg-concat", Cmp("eq", C2("concat", s, H), StrL(<<97>>))>>,
                          <<"arith-right", Cmp("eq", Bin("add", n, H), IntL(1))>>, <<"cmp-order", Cmp("gt", n, H)>>,
                          <<"lambda-list", Coll(Id0("cs"), "any", Lam(Id0("y"), Cmp("in", P("y", <<"n">>), Lst(<<IntL(1), H>>))))>> }
          [] t = "GEO" -> { <<"fn-arg-geo", Cmp("lt", G("distance", <<g, H>>), IntL(1))>>, <<"fn-arg-intersects", G("intersects", <<g, H>>)>> }
          [] OTHER -> {})

NoC == <<"none">>
Init == ty \in Types /\ cons = NoC /\ ctxt = NoC
PickCons == /\ cons = NoC /\ \E c \in Cons(ty) : cons' = c
            /\ UNCHANGED <<ty, ctxt>>
\* a collection inside a lambda body would need a collection on the child model: outside the harness schema
RECURSIVE HasColl(_)
HasColl(u) == u[1] = "Coll" \/ LET ks == Sub(u) IN \E i \in 1..Len(ks) : HasColl(ks[i])
PickCtx == /\ cons # NoC /\ ctxt = NoC /\ \E c \in Ctxs(ty) : (c[1] = "lambda-body" => ~HasColl(cons)) /\ ctxt' = c
           /\ UNCHANGED <<ty, cons>>
Next == PickCons \/ PickCtx
IsCase == ctxt # NoC
RECURSIVE Plant(_, _)
Plant(t, c) == IF IsHole(t) THEN c ELSE IF t[1] \in {"Id", "Lit", "None"} THEN t
               ELSE LET ks == Sub(t) IN Rebuild(t, [i \in 1..Len(ks) |-> Plant(ks[i], c)])
\* "in" with a List-typed construct on the right-hand side: the construct itself is the list
Filter == IF ctxt[1] = "in-rhs" /\ cons[1] # "List" THEN Cmp("eq", C1("length", cons), IntL(1)) ELSE Plant(ctxt[2], cons)

\* inventory: field references (not lambda variables, not function / parameter names) and literals
RECURSIVE Fields(_, _), Lits(_)
Fields(t, bound) ==
  CASE t[1] = "Id"   -> IF t[3] \in bound THEN {} ELSE {t[3]}
    [] t[1] = "Attr" -> {t[3]}                       \* a path is represented by its last segment (the column)
    [] t[1] = "Coll" -> IF t[4] = None THEN {} ELSE Fields(t[4], bound)
    [] t[1] \in {"Lit", "None"} -> {}
    [] t[1] = "Call" -> UNION { Fields(t[3][i], bound) : i \in 1..Len(t[3]) }
    [] t[1] = "Named" -> Fields(t[3], bound)
    [] t[1] = "Lam"  -> Fields(t[3], bound \cup {t[2][3]})
    [] OTHER -> LET ks == Sub(t) IN UNION { Fields(ks[i], bound) : i \in 1..Len(ks) }
Lits(t) == IF t[1] = "Lit" THEN (IF t[2] \in {"Null", "Boolean"} THEN {} ELSE {<<t[2], t[3]>>})
           ELSE IF t[1] \in {"Id", "None"} THEN {}
           ELSE LET ks == Sub(t) IN UNION { Lits(ks[i]) : i \in 1..Len(ks) }
RECURSIVE HasNavIn(_), HasGeoIn(_)
HasNavIn(u) == u[1] \in {"Attr", "Coll"} \/ LET ks == Sub(u) IN \E i \in 1..Len(ks) : HasNavIn(ks[i])
HasGeoIn(u) == (u[1] = "Call" /\ u[2][2] = <<"geo">>) \/ (u[1] = "Lit" /\ u[2] = "Geography")
               \/ LET ks == Sub(u) IN \E i \in 1..Len(ks) : HasGeoIn(ks[i])
HasNav == HasNavIn(Filter)
HasGeo == HasGeoIn(Filter)
Export == PrintT(ToJson(IF IsCase
            THEN [k |-> "case", ty |-> ty, ctxt |-> ctxt[1], tree |-> Filter, text |-> TextOf(Pr(Filter, "min"), SP),
                  fields |-> Fields(Filter, {}), lits |-> Lits(Filter), nav |-> HasNav, geo |-> HasGeo]
            ELSE [k |-> "partial"]))
=============================================================================
