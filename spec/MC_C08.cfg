INIT Init
NEXT Next
CONSTANTS
  CpsMode = TRUE
  LongN = 1
INVARIANT BothParse
INVARIANT Export
CHECK_DEADLOCK FALSE
