INIT Init
NEXT Next
CONSTANTS
  CpsMode = TRUE
INVARIANT BothParse
INVARIANT Export
CHECK_DEADLOCK FALSE
