------------------------------- MODULE Typing -------------------------------
(***************************************************************************)
(* OData types of $filter expressions (the fragment the library models).   *)
(* Types are named like the AST literal classes:                           *)
(*   Integer Float String Boolean Date Time DateTime Duration GUID         *)
(*   Geography Null List                                                   *)
(* ReturnType: OData 4.01 URL conventions 5.1.1.5 - 5.1.1.13 (built-in     *)
(* query functions); concat and substring return the type of their first   *)
(* argument (string or collection).                                        *)
(***************************************************************************)
EXTENDS Ast

Schema == [ n |-> "Integer", m |-> "Integer", f |-> "Float", s |-> "String", u |-> "String", b |-> "Boolean",
            d |-> "DateTime", dd |-> "Date", tt |-> "Time", du |-> "Duration", l |-> "List", g |-> "Geography",
            id |-> "GUID" ]
ReturnType ==
  [ contains |-> "Boolean", endswith |-> "Boolean", startswith |-> "Boolean", matchesPattern |-> "Boolean",
    hassubset |-> "Boolean", hassubsequence |-> "Boolean",
    indexof |-> "Integer", length |-> "Integer", year |-> "Integer", month |-> "Integer", day |-> "Integer",
    hour |-> "Integer", minute |-> "Integer", second |-> "Integer", totaloffsetminutes |-> "Integer",
    fractionalseconds |-> "Float", totalseconds |-> "Float", round |-> "Float", floor |-> "Float", ceiling |-> "Float",
    tolower |-> "String", toupper |-> "String", trim |-> "String",
    date |-> "Date", time |-> "Time", now |-> "DateTime", mindatetime |-> "DateTime", maxdatetime |-> "DateTime" ]
GeoReturnType == [ distance |-> "Float", length |-> "Float", intersects |-> "Boolean" ]
Numeric == {"Integer", "Float"}

RECURSIVE TypeOf(_)
ArithType(o, ta, tb) ==
  IF ta \in Numeric /\ tb \in Numeric THEN (IF ta = "Integer" /\ tb = "Integer" THEN "Integer" ELSE "Float")
  ELSE IF ta \in {"DateTime", "Date"} /\ tb = "Duration" THEN ta
  ELSE IF ta = "Duration" /\ tb = "Duration" THEN "Duration"
  ELSE IF ta \in {"DateTime", "Date"} /\ tb = ta /\ o = "sub" THEN "Duration"
  ELSE "Error"
TypeOf(t) ==
  CASE t[1] = "Lit"  -> t[2]
    [] t[1] = "List" -> "List"
    [] t[1] = "Id"   -> IF t[2] = <<>> /\ t[3] \in DOMAIN Schema THEN Schema[t[3]] ELSE "Unknown"
    [] t[1] = "Attr" -> "Unknown"
    [] t[1] \in {"Cmp", "Bool", "Coll"} -> "Boolean"
    [] t[1] = "Un"   -> IF t[2] = "not" THEN "Boolean" ELSE TypeOf(t[3])
    [] t[1] = "Bin"  -> ArithType(t[2], TypeOf(t[3]), TypeOf(t[4]))
    [] t[1] = "Call" -> LET id == t[2] IN
                        IF id[2] = <<>> /\ id[3] \in {"concat", "substring"} THEN TypeOf(t[3][1])
                        ELSE IF id[2] = <<>> /\ id[3] \in DOMAIN ReturnType THEN ReturnType[id[3]]
                        ELSE IF id[2] = <<"geo">> /\ id[3] \in DOMAIN GeoReturnType THEN GeoReturnType[id[3]]
                        ELSE "Unknown"
    [] OTHER -> "Unknown"

\* What a translator can know without a schema: a field's type is unknown to it.
Known(t) == IF t[1] \in {"Id", "Attr"} THEN "Unknown" ELSE TypeOf(t)
\* The functions that are overloaded on strings and collections.  A call in which no argument can be a string or a
\* collection, and at least one argument has a known other type, is ill-typed under every overload: a type check has to
\* reject it (for length / substring the first argument decides).
StringFns == {"contains", "startswith", "endswith", "indexof"}
MustReject(c) ==
  /\ c[1] = "Call" /\ c[2][2] = <<>>
  /\ \/ /\ c[2][3] \in StringFns
        /\ \A i \in 1..Len(c[3]) : Known(c[3][i]) \notin {"String", "List"}
        /\ \E i \in 1..Len(c[3]) : Known(c[3][i]) # "Unknown"
     \/ /\ c[2][3] \in {"length", "substring"}
        /\ Known(c[3][1]) \notin {"String", "List", "Unknown"}
=============================================================================
