------------------------------ MODULE MC_C10 ------------------------------
(***************************************************************************)
(* C10 input generator.                                                    *)
(*  Mode "atoms": every sequence of at most K lexical atoms; the text is   *)
(*     the concatenation of the atoms' code points, the prediction is what *)
(*     the spec lexer + parser machine make of that text (so atoms that    *)
(*     merge into one lexeme are handled by construction).                 *)
(*  Mode "mut": one token-level mutation (delete / duplicate / swap with   *)
(*     successor / insert an atom) of the minimal rendering of a valid     *)
(*     tree from a small derivation machine.                               *)
(* The property's own oracle (terminates; node or library exception; same  *)
(* outcome when repeated) is applied by the harness to the real parser;    *)
(* the prediction is recorded to measure specification drift.              *)
(***************************************************************************)
EXTENDS Diag, Json
CONSTANTS K, Mode, MaxOps
VARIABLES seq, t, n, mut

AtomStrs == << "a", "b1", "nullable", "ns.f", "1", "-2", "1.5", "'s'", "''", "(", ")", ",", "/", ":", "=", " ",
               " eq ", " and ", " add ", " in ", "not ", "-", "any", "all", "null", "true", "concat", "now",
               "length", "foo", "#", "'", "2020-01-01", "duration'P1D'", "geo.length", "x:" >>
\* two non-ASCII atoms: a letter that \w matches (and that cannot start a token) and a space that \s matches
UniAtoms == << <<233>>, <<160>> >>
NAtoms == Len(AtomStrs) + Len(UniAtoms)
AtomCps == [i \in 1..NAtoms |-> IF i <= Len(AtomStrs) THEN StrCps(AtomStrs[i]) ELSE UniAtoms[i - Len(AtomStrs)]]
RECURSIVE Concat(_)
Concat(ixs) == IF ixs = <<>> THEN <<>> ELSE AtomCps[ixs[1]] \o Concat(Tail(ixs))

\* ---- mode "mut": a small tree generator (as MC_C05, narrow) and a mutation of its token rendering
a == Id0("a")  one == IntL(1)
E == Hole("e")
Atoms == {a, one, StrL(<<115>>), Attr(a, "p")}
Brackets == { Call(Id0("concat"), <<E, a>>), Call(Id0("now"), <<>>), Lst(<<E, one>>),
              Coll(Id0("c"), "any", Lam(Id0("x"), E)), Call(Id(<<"f">>, "g"), <<Named(Id0("k"), E)>>) }
Expand(s) == { <<0, x>> : x \in Atoms }
       \cup { <<1, BinNode(o, E, E)>> : o \in {"or", "eq", "add"} }
       \cup { <<1, Cmp("in", E, Lst(<<one>>))>> }
       \cup { <<1, Un(o, E)>> : o \in PreOps }
       \cup { <<1, x>> : x \in Brackets }
InsTok == { <<"(">>, <<")">>, <<",">>, <<"/">>, <<":">>, <<"=">>, <<"ws">>, <<"op", "eq">>, <<"not">>, <<"neg">>,
            <<"any">>, <<"id", <<>>, "a">>, <<"lit", "Integer", 1>>, <<"id", <<>>, "foo">> }

NoMut == <<"none">>
Init == seq = <<>> /\ t = E /\ n = 0 /\ mut = NoMut
Extend == /\ Mode = "atoms" /\ Len(seq) < K
          /\ \E i \in 1..NAtoms : seq' = Append(seq, i)
          /\ UNCHANGED <<t, n, mut>>
Fill == /\ Mode = "mut" /\ mut = NoMut
        /\ LET h == FirstHole(t) IN
           /\ h # NoHole
           /\ \E e \in Expand(h[2]) : n + e[1] <= MaxOps /\ t' = FillFirst(t, e[2]) /\ n' = n + e[1]
        /\ UNCHANGED <<seq, mut>>
Toks == Pr(t, "min")
Mutate == /\ Mode = "mut" /\ mut = NoMut /\ ~HasHole(t)
          /\ \E i \in 1..Len(Toks) :
               \/ mut' = <<"del", i>>
               \/ mut' = <<"dup", i>>
               \/ (i < Len(Toks) /\ mut' = <<"swap", i>>)
               \/ \E x \in InsTok : mut' = <<"ins", i, x>>
          /\ UNCHANGED <<seq, t, n>>
Next == Extend \/ Fill \/ Mutate

Mutated == LET ts == Toks  i == mut[2] IN
           CASE mut[1] = "del"  -> SubSeq(ts, 1, i - 1) \o SubSeq(ts, i + 1, Len(ts))
             [] mut[1] = "dup"  -> SubSeq(ts, 1, i) \o SubSeq(ts, i, Len(ts))
             [] mut[1] = "swap" -> SubSeq(ts, 1, i - 1) \o <<ts[i + 1], ts[i]>> \o SubSeq(ts, i + 2, Len(ts))
             [] mut[1] = "ins"  -> SubSeq(ts, 1, i - 1) \o <<mut[3]>> \o SubSeq(ts, i, Len(ts))

Text == IF Mode = "atoms" THEN Concat(seq) ELSE TextOf(Mutated, SP)
IsCase == IF Mode = "atoms" THEN Len(seq) >= 1 ELSE mut # NoMut
\* prediction class only (trees are compared by C05/C06/C13, not here)
Pred == LET r == ParseText(Text) IN r[1]

\* the exact diagnosis (module Diag): which error, where; only the class and the fields are exported, not the tree
DiagOf == LET d == DiagText(Text) IN IF d[1] = "ok" THEN <<"ok">> ELSE d
\* the two readings of the specification agree on what is accepted and on the tree (Diag refines the order of errors only)
DiagAgreesWithParse == IsCase => LET d == DiagText(Text)  q == ParseText(Text) IN
                          /\ (d[1] = "ok") = (q[1] = "ok")
                          /\ (d[1] = "ok" => d = q)
                          /\ (d[1] \in {"unknown", "argc"} => q[1] \in {d[1], "syntax", "token"})
Export == PrintT(ToJson(IF IsCase THEN [k |-> "case", text |-> Text, pred |-> Pred, diag |-> DiagOf] ELSE [k |-> "partial"]))
=============================================================================
