------------------------------- MODULE SqlLex -------------------------------
(***************************************************************************)
(* A lexical automaton for SQL text (standard SQL as understood by SQLite  *)
(* and Presto/Athena), one transition per code point.  This automaton IS   *)
(* the definition of "inside exactly one string-literal token" (C07) and   *)
(* of "tokenisable" (C09).                                                 *)
(*                                                                         *)
(* Modes:  N normal | S inside '...' | Q inside "..." | L line comment     *)
(*         | B block comment.                                              *)
(* Tokens: <<"STR", content>>  <<"QID", name>>  <<"NUM", text>>            *)
(*         <<"WORD", upper-cased text>>  <<"OP", text>>  <<"P", char>>     *)
(*         <<"PARAM", text>>  <<"COMMENT">>  <<"SEMI">>  <<"BAD", c>>      *)
(* Inside S a doubled quote is an escaped quote, nothing else is special   *)
(* (no backslash escapes in standard SQL).                                 *)
(***************************************************************************)
EXTENDS Cps

SQ == 39   DQ == 34
IsSqlSpace(c) == c \in {9, 10, 11, 12, 13, 32}
OpChars == {61, 60, 62, 33, 43, 45, 42, 47, 37, 124}      \* = < > ! + - * / % |
TwoCharOps == { <<60, 61>>, <<62, 61>>, <<60, 62>>, <<33, 61>>, <<124, 124>> }
PunctChars == {40, 41, 44, 46}                            \* ( ) , .
ChAt(x, i) == IF i >= 1 /\ i <= Len(x) THEN x[i] ELSE -1

(* State of the automaton: [mode, i, cur (content of the token being read), toks] *)
LInit == [mode |-> "N", i |-> 1, cur |-> <<>>, toks |-> <<>>]

WordEndAt(x, i) == CHOOSE j \in i..(Len(x) + 1) : (j = Len(x) + 1 \/ ~IsWord(x[j])) /\ \A k \in i..(j - 1) : IsWord(x[k])
DigitsEndAt(x, i) == CHOOSE j \in i..(Len(x) + 1) : (j = Len(x) + 1 \/ ~IsDigit(x[j])) /\ \A k \in i..(j - 1) : IsDigit(x[k])
NumEndAt(x, i) ==
  LET a == DigitsEndAt(x, i)
      b == IF ChAt(x, a) = 46 /\ IsDigit(ChAt(x, a + 1)) THEN DigitsEndAt(x, a + 1) ELSE a
      s == IF Lower(ChAt(x, b)) = 101 THEN (IF ChAt(x, b + 1) \in {43, 45} THEN b + 2 ELSE b + 1) ELSE 0
  IN IF s # 0 /\ IsDigit(ChAt(x, s)) THEN DigitsEndAt(x, s) ELSE b

\* one transition
LStep(x, st) ==
  LET c == x[st.i]  d == ChAt(x, st.i + 1) IN
  CASE st.mode = "S" ->
         IF c = SQ THEN (IF d = SQ THEN [st EXCEPT !.i = @ + 2, !.cur = Append(@, SQ)]
                         ELSE [st EXCEPT !.i = @ + 1, !.mode = "N", !.toks = Append(@, <<"STR", st.cur>>), !.cur = <<>>])
         ELSE [st EXCEPT !.i = @ + 1, !.cur = Append(@, c)]
    [] st.mode = "Q" ->
         IF c = DQ THEN (IF d = DQ THEN [st EXCEPT !.i = @ + 2, !.cur = Append(@, DQ)]
                         ELSE [st EXCEPT !.i = @ + 1, !.mode = "N", !.toks = Append(@, <<"QID", st.cur>>), !.cur = <<>>])
         ELSE [st EXCEPT !.i = @ + 1, !.cur = Append(@, c)]
    [] st.mode = "L" -> IF c = 10 THEN [st EXCEPT !.i = @ + 1, !.mode = "N"] ELSE [st EXCEPT !.i = @ + 1]
    [] st.mode = "B" -> IF c = 42 /\ d = 47 THEN [st EXCEPT !.i = @ + 2, !.mode = "N"] ELSE [st EXCEPT !.i = @ + 1]
    [] st.mode = "N" ->
         IF IsSqlSpace(c) THEN [st EXCEPT !.i = @ + 1]
         ELSE IF c = SQ THEN [st EXCEPT !.i = @ + 1, !.mode = "S", !.cur = <<>>]
         ELSE IF c = DQ THEN [st EXCEPT !.i = @ + 1, !.mode = "Q", !.cur = <<>>]
         ELSE IF c = 45 /\ d = 45 THEN [st EXCEPT !.i = @ + 2, !.mode = "L", !.toks = Append(@, <<"COMMENT">>)]
         ELSE IF c = 47 /\ d = 42 THEN [st EXCEPT !.i = @ + 2, !.mode = "B", !.toks = Append(@, <<"COMMENT">>)]
         ELSE IF c = 59 THEN [st EXCEPT !.i = @ + 1, !.toks = Append(@, <<"SEMI">>)]
         ELSE IF IsDigit(c) THEN LET e == NumEndAt(x, st.i) IN
              [st EXCEPT !.i = e, !.toks = Append(@, <<"NUM", SubSeq(x, st.i, e - 1)>>)]
         ELSE IF IsAlpha(c) \/ c = 95 THEN LET e == WordEndAt(x, st.i) IN
              [st EXCEPT !.i = e, !.toks = Append(@, <<"WORD", UpperSeq(SubSeq(x, st.i, e - 1))>>)]
         ELSE IF c = 63 THEN [st EXCEPT !.i = @ + 1, !.toks = Append(@, <<"PARAM", <<63>>>>)]
         ELSE IF c = 37 /\ d = 115 THEN [st EXCEPT !.i = @ + 2, !.toks = Append(@, <<"PARAM", <<37, 115>>>>)]
         ELSE IF c = 58 /\ (IsAlpha(d) \/ d = 95) THEN LET e == WordEndAt(x, st.i + 1) IN
              [st EXCEPT !.i = e, !.toks = Append(@, <<"PARAM", SubSeq(x, st.i, e - 1)>>)]
         ELSE IF <<c, d>> \in TwoCharOps THEN [st EXCEPT !.i = @ + 2, !.toks = Append(@, <<"OP", <<c, d>>>>)]
         ELSE IF c \in OpChars THEN [st EXCEPT !.i = @ + 1, !.toks = Append(@, <<"OP", <<c>>>>)]
         ELSE IF c \in PunctChars THEN [st EXCEPT !.i = @ + 1, !.toks = Append(@, <<"P", c>>)]
         ELSE [st EXCEPT !.i = @ + 1, !.toks = Append(@, <<"BAD", c>>)]

RECURSIVE LRun(_, _)
LRun(x, st) == IF st.i > Len(x) THEN st ELSE LRun(x, LStep(x, st))
\* result: [toks, mode]  (mode # "N" at the end: unterminated string / identifier / block comment; "L" is fine)
SqlLexRun(x) == LRun(x, LInit)
SqlTokens(x) == SqlLexRun(x).toks
EndsNormal(x) == SqlLexRun(x).mode \in {"N", "L"}

\* token sequence with the contents of strings / quoted identifiers erased
Skeleton(toks) == [i \in 1..Len(toks) |-> IF toks[i][1] \in {"STR", "QID"} THEN <<toks[i][1]>> ELSE toks[i]]
Hostile(toks) == \E i \in 1..Len(toks) : toks[i][1] \in {"COMMENT", "SEMI", "BAD"}
CountKind(toks, k) == LET F[i \in 0..Len(toks)] == IF i = 0 THEN 0 ELSE F[i - 1] + (IF toks[i][1] = k THEN 1 ELSE 0) IN F[Len(toks)]
=============================================================================
