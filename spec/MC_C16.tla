------------------------------ MODULE MC_C16 ------------------------------
(***************************************************************************)
(* C16: trees over every node kind x override set (none, or one class).    *)
(* Exports the tree, the override and the expected transformer result;     *)
(* the dispatch log recorded from the real NodeVisitor is validated by     *)
(* Trace_Visit against the Visitor machine.  Model-level invariants:       *)
(* the default traversal logs every node exactly once (log length = number *)
(* of nodes incl. operator tokens), and a transformer overriding a class   *)
(* that does not occur is the identity.                                    *)
(***************************************************************************)
EXTENDS OData, Visitor, Rewrite, Json
CONSTANTS MaxOps, Wide
VARIABLES t, n, ov

a == Id0("a")  one == IntL(1)
E == Hole("e")
Atoms == IF Wide
         THEN { a, Id(<<"ns">>, "b"), Attr(a, "p"), Attr(Attr(a, "p"), "q"), Attr(Id(<<"ns">>, "a"), "p"), one, NullL, Lit("Float", "1.5"), BoolL("true"),
                \* same value, different spelling: equal only if spelled alike
                BoolL("TRUE"), Lit("Float", "1.50"), Lit("DateTime", "2020-02-29T12:00:00z"),
                StrL(<<115>>), StrL(<<97, 39, 39, 39, 39, 98>>), Lit("Geography", "POINT(1 2)"), Lit("Date", "2020-02-29"), Lit("Time", "12:00:00"),
                Lit("DateTime", "2020-02-29T12:00:00Z"), Lit("Duration", "P1D"), Lit("GUID", "01234567-89ab-cdef-0123-456789abcdef"),
                Coll(Id0("c"), "any", None), Call(Id0("now"), <<>>), Lst(<<Lst(<<one>>), a>>) }
         ELSE { a, one, Attr(a, "p") }
Brackets == { Call(Id0("concat"), <<E, E>>), Call(Id(<<"f">>, "g"), <<Named(Id0("k"), E), Named(Id0("m"), one)>>),
              \* built-in functions called with named parameters (the back-ends split positional from named arguments)
              Call(Id0("contains"), <<Named(Id0("field"), E), Named(Id0("substr"), StrL(<<115>>))>>),
              Call(Id0("substring"), <<E, Named(Id0("index"), one)>>),
              Lst(<<E>>), Lst(<<one, E, Lst(<<E>>)>>),
              Coll(Id0("c"), "any", Lam(Id0("x"), E)), Coll(Attr(a, "q"), "all", Lam(Id0("x"), E)) }
OpsUsed == IF Wide THEN {"or", "eq", "add"} ELSE {"and", "lt", "ne", "sub", "mod"}
Expand(s) == { <<0, x>> : x \in Atoms }
       \cup { <<1, BinNode(o, E, E)>> : o \in OpsUsed }
       \cup { <<1, Cmp("in", E, Lst(<<one, a>>))>> }
       \cup { <<1, Un(o, E)>> : o \in PreOps }
       \cup { <<1, x>> : x \in Brackets }

NoOv == <<"unset">>
Init == t = E /\ n = 0 /\ ov = NoOv
Fill == /\ ov = NoOv
        /\ LET h == FirstHole(t) IN
           /\ h # NoHole
           /\ \E e \in Expand(h[2]) : n + e[1] <= MaxOps /\ t' = FillFirst(t, e[2]) /\ n' = n + e[1]
        /\ UNCHANGED ov
\* overrides: none, one class that occurs in the tree, or one that does not
Classes(x) == { e[1] : e \in { VisitLog(x, {})[i] : i \in 1..Len(VisitLog(x, {})) } }
PickOv == /\ ov = NoOv /\ ~HasHole(t)
          /\ \E o \in { <<>> } \cup { <<c>> : c \in Classes(t) } \cup { <<"Duration">>, <<"Mod">> } : ov' = o
          /\ UNCHANGED <<t, n>>
Next == Fill \/ PickOv
IsCase == ov # NoOv
OverSet == { ov[i] : i \in 1..Len(ov) }

EveryNodeOnce == ~HasHole(t) => Len(VisitLog(t, {})) = FullSize(t)
AbsentOverrideIsIdentity == (IsCase /\ ov # <<>> /\ ov[1] \notin Classes(t)) => ReplaceKind(t, ov[1]) = t
\* The shipped single-purpose transformers change exactly what their handlers change: the expected results of the
\* alias rewriter (Rewrite!Subst) and of the identifier stripper (Rewrite!Relative) on trees where lambda scopes nest,
\* re-bind and end - exported once, next to the generated cases.
ib == Id0("i")  tot == Id0("total")
Sigma == (ib :> Id0("index")) @@ (tot :> Id0("price_total")) @@ (Attr(ib, "qty") :> Id0("iq"))
ScopeTrees == << Coll(Id0("lines"), "any", Lam(ib, Bool("and", Coll(Attr(ib, "parts"), "any", Lam(ib, Cmp("gt", Attr(ib, "qty"), one))), Cmp("gt", Attr(ib, "price"), tot)))),
                 Bool("and", Cmp("eq", ib, one), Coll(Id0("items"), "any", Lam(ib, Cmp("eq", ib, tot)))),
                 Bool("or", Coll(Id0("items"), "all", Lam(ib, Cmp("eq", Attr(ib, "qty"), one))), Cmp("eq", Attr(ib, "qty"), ib)),
                 Coll(Id0("xs"), "any", Lam(Id0("x"), Bool("and", Coll(Attr(Id0("x"), "ys"), "any", Lam(ib, Cmp("eq", ib, tot))), Cmp("eq", ib, Attr(Id0("x"), "total"))))),
                 Coll(Attr(ib, "qty"), "any", Lam(tot, Coll(Attr(tot, "zs"), "all", Lam(tot, Bool("or", Cmp("lt", tot, ib), Coll(Attr(tot, "ws"), "any", None)))))),
                 Cmp("eq", Call(Id0("i"), <<Named(ib, ib), tot>>), Call(Id(<<"i">>, "total"), <<Attr(ib, "qty")>>)) >>
Txt(x) == Spell(Pr(x, "min"), " ")
ScopeRecord == ([k |-> "scope", sigma |-> [j \in 1..3 |-> CASE j = 1 -> <<Txt(ib), Txt(Sigma[ib])>> [] j = 2 -> <<Txt(tot), Txt(Sigma[tot])>>
                                                                          [] OTHER -> <<Txt(Attr(ib, "qty")), Txt(Sigma[Attr(ib, "qty")])>>],
                              cases |-> [j \in 1..Len(ScopeTrees) |-> [tree |-> ScopeTrees[j], aliased |-> Subst(ScopeTrees[j], Sigma),
                                                                       relative |-> Relative(ScopeTrees[j], ib)]]])
Export == PrintT(ToJson(IF IsCase
            THEN [k |-> "case", tree |-> t, over |-> ov, nops |-> n,
                  transformed |-> IF ov = <<>> THEN t ELSE ReplaceKind(t, ov[1]),
                  swap |-> IF ov # <<>> /\ ov[1] \in DOMAIN SwapTok THEN SwapTok[ov[1]] ELSE ""]
            ELSE IF t = E THEN ScopeRecord ELSE [k |-> "partial"]))
=============================================================================
