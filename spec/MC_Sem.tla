------------------------------ MODULE MC_Sem ------------------------------
(***************************************************************************)
(* Generator of typed scalar filters (C01 / C02 / C03) with their meaning. *)
(* Holes are typed: "B" boolean, "I" integer, "S" string, "T" datetime.    *)
(* For every complete filter the module exports the tree, its minimal and  *)
(* fully parenthesised text, the referenced columns and the set of         *)
(* valuations of those columns (over the value domain below) for which the *)
(* filter is TRUE - the rows OData says must be selected.                  *)
(* Profiles restrict the alphabet so that each one is exhaustively         *)
(* enumerable: "logic", "arith", "strings", "misc".                        *)
(* Backend restricts the fragment to what that backend documents:          *)
(* "sqlite" | "django" | "sqlalchemy".                                     *)
(***************************************************************************)
EXTENDS Lex, Sem, Json
CONSTANTS MaxOps, Profile, Backend, LongN
VARIABLES t, n

Q == 39
IntDom  == {NULL, IV(-2), IV(0), IV(1), IV(3)}
StrDom  == {NULL, SV(<<>>), SV(<<97>>), SV(<<97, 98>>), SV(<<98, 97>>), SV(<<97, 37, 98>>), SV(<<97, 95, 98>>),
            SV(<<37>>), SV(<<95>>), SV(<<111, Q, 114>>), SV(<<92>>), SV(<<97, 32, 98>>)}
BoolDom == {NULL, TRUEV, FALSEV}
TimeDom == {NULL, TV(2019, 12, 31, 23, 59, 59), TV(2020, 2, 29, 0, 0, 0), TV(2021, 1, 1, 10, 5, 0)}
\* temporal columns: a second instant, a calendar date, a time of day, a duration
Time2Dom == {NULL, TV(2020, 2, 28, 23, 0, 0), TV(2020, 1, 1, 0, 0, 0), TV(2021, 1, 1, 10, 5, 0)}
DateDom == {NULL, <<"d", 2019, 12, 31>>, <<"d", 2020, 2, 29>>, <<"d", 2021, 1, 1>>}
TodDom  == {NULL, <<"tod", 0, 0, 0>>, <<"tod", 10, 5, 0>>, <<"tod", 23, 59, 59>>}
DurDom  == {NULL, <<"dur", -60>>, <<"dur", 0>>, <<"dur", 3600>>, <<"dur", 86400>>}
G1 == "AAAAAAAA-0000-4000-8000-00000000000A"   G2 == "bbbbbbbb-0000-4000-8000-00000000000b"   G3 == "cccccccc-0000-4000-8000-00000000000c"
GuidDom == {NULL, SV(StrCps(G1)), SV(StrCps(G2))}        \* stored as text, one spelled in upper case
ColDom == [n |-> IntDom, m |-> IntDom, s |-> StrDom, u |-> StrDom, b |-> BoolDom, d |-> TimeDom,
           e |-> Time2Dom, dd |-> DateDom, tt |-> TodDom, du |-> DurDom, g |-> GuidDom]
ColOrder == <<"n", "m", "s", "u", "b", "d", "e", "dd", "tt", "du", "g">>

nC == Id0("n")  mC == Id0("m")  sC == Id0("s")  uC == Id0("u")  bC == Id0("b")  dC == Id0("d")
HB == Hole("B")  HI == Hole("I")  HS == Hole("S")  HT == Hole("T")
C1(f, x) == Call(Id0(f), <<x>>)
C2(f, x, y) == Call(Id0(f), <<x, y>>)
SL(c) == StrL(c)
FL(x) == Lit("Float", x)
T1 == Lit("DateTime", "2020-02-29T00:00:00")  T2 == Lit("DateTime", "2019-12-31T23:59:59")

ExpandLogic(h) ==
  CASE h = "B" -> { <<0, x>> : x \in { Cmp("eq", nC, IntL(1)), Cmp("lt", nC, mC), Cmp("ge", mC, IntL(0)), Cmp("eq", sC, SL(<<97>>)),
                                       Cmp("eq", nC, NullL), Cmp("ne", sC, NullL), Cmp("eq", bC, BoolL("true")),
                                       Cmp("in", nC, Lst(<<IntL(1), IntL(3)>>)), C2("contains", sC, SL(<<97>>)),
                                       \* two literals of one value spelled differently (a comparison is by value)
                                       Cmp("eq", BoolL("TRUE"), BoolL("true")), Cmp("ne", BoolL("False"), BoolL("FALSE")),
                                       Cmp("eq", FL("1.50"), FL("1.5")), Cmp("ne", FL("1E3"), FL("1e3")), Cmp("eq", IntL(1), IntL(1)),
                                       \* list items that are not literals
                                       Cmp("in", nC, Lst(<<mC, IntL(3)>>)), Cmp("in", nC, Lst(<<Bin("add", mC, IntL(1)), Bin("sub", IntL(0), mC)>>)),
                                       \* list members that repeat (every member is rendered, in its place)
                                       Cmp("in", nC, Lst(<<IntL(1), IntL(3), IntL(1)>>)), Cmp("in", mC, Lst(<<nC, IntL(3), nC>>)),
                                       \* whole decimals beyond the 64-bit integer range (they stay decimals)
                                       Cmp("lt", nC, FL("1e19")), Cmp("gt", mC, FL("-1E19")), Cmp("in", nC, Lst(<<FL("1e19"), IntL(1)>>)) } }
                  \cup { <<1, Bool("and", HB, HB)>>, <<1, Bool("or", HB, HB)>>, <<1, Un("not", HB)>>,
                         <<1, Cmp("eq", HB, BoolL("true"))>>, <<1, Cmp("ne", HB, BoolL("false"))>> }
                  \* chains of three and four operands of one connective whose FIRST operand is a group of the other one
                  \cup { <<1, Bool("and", Bool("and", Bool("or", HB, Cmp("eq", nC, IntL(1))), Cmp("ge", mC, IntL(0))), Cmp("ne", sC, NullL))>>,
                         <<1, Bool("and", Bool("and", Bool("and", Bool("or", Cmp("lt", nC, mC), HB), Cmp("ge", mC, IntL(0))), Cmp("ne", sC, NullL)), Cmp("eq", nC, NullL))>>,
                         <<1, Bool("or", Bool("or", Bool("and", HB, Cmp("eq", nC, IntL(1))), Cmp("lt", nC, mC)), Cmp("eq", sC, SL(<<97>>)))>> }
ExpandArith(h) ==
  CASE h = "B" -> { <<0, Cmp(o, HI, a)>> : o \in {"eq", "lt", "ge", "ne"}, a \in {IntL(1), mC} }
                  \cup { <<0, Cmp("gt", IntL(0), HI)>>, <<0, Cmp("in", HI, Lst(<<IntL(-2), IntL(3)>>))>> }
                  \* a grouped right operand EQUAL to the left operand (value-based node equality must not confuse the two sides)
                  \cup { <<0, Cmp(o, Bin("sub", X, X), IntL(0))>> : o \in {"eq", "lt"}, X \in {Bin("sub", nC, mC), Bin("add", nC, IntL(1))} }
                  \cup { <<0, Cmp("eq", Bin("sub", IntL(1), Bin("sub", IntL(1), nC)), mC)>> }
                  \cup { <<0, Cmp(o, Hole("N"), c)>> : o \in {"eq", "lt", "ge"}, c \in {FL("0.5"), FL("1.5"), FL("2.5"), IntL(1)} }
                  \* literals written with an exponent: tiny, negative, upper-case E, explicit sign
                  \cup { <<0, Cmp(o, HI, c)>> : o \in {"lt", "gt"}, c \in {FL("2.5e-1"), FL("1E3"), FL("1.5e+1")} }
                  \* (the tiny ones only next to shallow operands: TLC's integers are 32 bit, and a denominator of 10^7
                  \*  overflows once the other side exceeds 214)
                  \cup { <<0, Cmp(o, x, c)>> : o \in {"lt", "gt"}, x \in {nC, mC, Bin("sub", nC, mC)}, c \in {FL("1e-7"), FL("-1e-7")} }
                  \cup { <<0, Cmp("in", x, Lst(<<FL("1e-7"), FL("1e0"), FL("3.0e0")>>))>> : x \in {nC, Bin("add", nC, mC)} }
                  \cup { <<0, Cmp("lt", FL("-2.5E-1"), Hole("N"))>> }
    [] h = "N" -> { <<1, Bin(o, HI, f)>> : o \in {"div", "mul", "add", "sub"}, f \in {FL("2.0"), FL("0.5")} }
                  \cup { <<1, Bin("sub", FL("1.5"), HI)>>, <<1, Bin("mul", FL("-0.5"), HI)>> }
    [] h = "I" -> { <<0, x>> : x \in {nC, mC, IntL(-2), IntL(1), IntL(3)} }
                  \cup { <<1, Bin(o, HI, HI)>> : o \in {"add", "sub", "mul"} }
                  \cup { <<1, Bin(o, HI, IntL(k))>> : o \in {"div", "mod"} \ (IF Backend = "sqlalchemy" THEN {"div"} ELSE {}), k \in {2, -2} }
                  \* a chain of one non-commutative operator with different right operands
                  \cup { <<1, Bin("mod", Bin("mod", HI, IntL(3)), IntL(2))>>, <<1, Bin("sub", Bin("sub", HI, IntL(3)), mC)>> }
                  \cup (IF Backend = "sqlite" THEN { <<1, Un("neg", HI)>> } ELSE {})
ExpandStrings(h) ==
  CASE h = "B" -> { <<0, C2(f, HS, p)>> : f \in {"contains", "startswith", "endswith"},
                                          p \in {SL(<<97>>), SL(<<37>>), SL(<<95>>), SL(<<Q>>), SL(<<92>>), SL(<<>>), SL(<<97, 37>>), SL(<<92, 37>>), SL(<<97, 92, 95>>)} }
                  \cup { <<0, C2(f, HS, uC)>> : f \in {"contains", "startswith", "endswith"} }
                  \cup { <<0, Cmp(o, HS, p)>> : o \in {"eq", "lt", "ge"}, p \in {SL(<<97, 98>>), SL(<<65, 66>>), SL(<<97, 37, 98>>), SL(<<97, 32, 98>>), SL(<<97, 32, 32, 98>>), uC,
                                                                                SL(<<97, 37, 50, 48, 98>>), SL(<<37, 54, 49>>),
                                                                                SL(<<92>>), SL(<<97, 92, 98>>)} }     \* 'a%20b' and '%61': not URL-encoded text
                  \cup { <<0, Cmp(o, C1("length", HS), IntL(k))>> : o \in {"eq", "gt"}, k \in {0, 2} }
                  \* an integer-valued function against a decimal literal (no truncation of the literal)
                  \cup { <<0, Cmp(o, C1("length", HS), FL("1.5"))>> : o \in {"lt", "ge", "eq"} }
                  \cup { <<0, Cmp("ge", C2("indexof", HS, SL(<<98>>)), FL("0.5"))>> }
                  \* arithmetic between two integer-valued string functions
                  \cup { <<0, Cmp("eq", Bin("add", C2("indexof", sC, SL(<<98>>)), C2("indexof", sC, SL(<<97>>))), IntL(1))>>,
                         <<0, Cmp("gt", Bin("add", C1("length", sC), C1("length", uC)), IntL(3))>> }
                  \cup { <<0, Cmp(o, C2("indexof", HS, p), IntL(k))>> : o \in {"eq", "lt"}, k \in {0, 1}, p \in {SL(<<98>>), SL(<<37>>), uC} }
                  \cup { <<0, Cmp("in", HS, Lst(<<SL(<<97>>), SL(<<111, Q, 114>>), SL(<<37>>)>>))>> }
                  \cup { <<0, Cmp(o, C1("toupper", HS), SL(<<65, 66>>))>> : o \in {"eq", "ne", "lt"} }
                  \* a string predicate in a negated position (an unknown stays unknown, a shortcut to TRUE / FALSE shows)
                  \cup { <<1, Un("not", HB)>>, <<1, Cmp("eq", HB, BoolL("false"))>> }
    [] h = "S" -> { <<0, x>> : x \in {sC, uC, SL(<<97>>), SL(<<37>>), SL(<<>>)} }
                  \cup { <<1, C2("concat", HS, HS)>>, <<1, C1("tolower", HS)>>, <<1, C1("trim", HS)>> }
                  \* left- and right-nested concatenation with a separator (order and grouping both matter)
                  \cup { <<1, C2("concat", C2("concat", HS, SL(<<45>>)), uC)>>, <<1, C2("concat", sC, C2("concat", SL(<<45>>), HS))>> }
                  \cup { <<1, C2("substring", HS, IntL(k))>> : k \in {0, 1, 2} }
                  \cup { <<1, Call(Id0("substring"), <<HS, IntL(k), IntL(j)>>)>> : k \in {0, 1}, j \in {0, 1, 2} }
ExpandMisc(h) ==
  CASE h = "B" -> { <<0, x>> : x \in (IF Backend = "django" THEN {} ELSE {bC, Cmp("eq", Un("not", bC), NullL), Cmp("ne", Un("not", bC), NullL)}) \cup { Cmp("eq", bC, BoolL("false")), Cmp("ne", bC, BoolL("true")), Cmp("eq", bC, NullL),
                                       Cmp("eq", NullL, nC), Cmp("ne", NullL, sC),
                                       \* null on the LEFT of a compound operand
                                       Cmp("eq", NullL, Cmp("eq", nC, mC)), Cmp("ne", NullL, C2("contains", sC, SL(<<97>>))),
                                       Cmp("eq", NullL, Un("not", Cmp("gt", nC, IntL(0)))), Cmp("ne", NullL, Bool("or", Cmp("eq", nC, IntL(1)), Cmp("eq", mC, IntL(1)))), Cmp("ne", dC, NullL), Cmp("eq", nC, mC), Cmp("ne", sC, uC),
                                       Cmp("lt", dC, T1), Cmp("ge", dC, T1), Cmp("eq", dC, T2), Cmp("gt", T1, dC), Cmp("le", IntL(1), nC),
                                       Cmp("in", nC, Lst(<<IntL(0)>>)), Cmp("in", sC, Lst(<<SL(<<>>), SL(<<97, 95, 98>>)>>)),
                                       Cmp("eq", C2("contains", sC, SL(<<97>>)), BoolL("true")),
                                       Cmp("eq", C2("endswith", sC, SL(<<98>>)), BoolL("false")),
                                       \* ... and the mirror images: a boolean-valued call as the RIGHT operand, on both sides
                                       Cmp("eq", BoolL("true"), C2("contains", sC, SL(<<97>>))),
                                       Cmp("ne", BoolL("false"), C2("startswith", sC, SL(<<97>>))),
                                       Cmp("eq", C2("contains", sC, SL(<<97>>)), C2("endswith", sC, SL(<<98>>))),
                                       Cmp("ne", C2("startswith", sC, uC), C2("contains", uC, SL(<<97>>))),
                                       Cmp("eq", Cmp("gt", nC, IntL(0)), Cmp("gt", mC, IntL(0))),
                                       Cmp("eq", Cmp("eq", nC, IntL(1)), BoolL("true")) } }
                  \* GUID literals against a text column (literals spelled exactly as stored, or a different GUID)
                  \cup (IF Backend = "django" THEN {}
                        ELSE { <<0, Cmp(o, Id0("g"), Lit("GUID", x))>> : o \in {"eq", "ne"}, x \in {G1, G2, G3} }
                             \cup { <<0, Cmp("in", Id0("g"), Lst(<<Lit("GUID", G3), Lit("GUID", G1)>>))>>, <<0, Cmp("eq", Lit("GUID", G1), Id0("g"))>> })
                  \cup { <<0, Cmp(o, C1(f, dC), IntL(k))>> : o \in {"eq", "gt"},
                           <<f, k>> \in {<<"year", 2020>>, <<"month", 2>>, <<"day", 29>>, <<"hour", 10>>, <<"minute", 59>>} }
                  \cup { <<1, Bool("and", HB, HB)>>, <<1, Bool("or", HB, HB)>>, <<1, Un("not", HB)>> }
ExpandMath(h) ==
  CASE h = "B" -> { <<0, Cmp(o, C1(f, Hole("N")), IntL(k))>> : f \in {"round", "floor", "ceiling"}, o \in {"eq", "lt"}, k \in {-1, 0, 1, 2} }
                  \cup { <<0, Cmp("eq", C1(f, HI), IntL(k))>> : f \in {"round", "floor", "ceiling"}, k \in {-2, 1} }
                  \cup (IF Backend = "sqlite" THEN {} ELSE { <<0, Cmp(o, C1("second", dC), IntL(59))>> : o \in {"eq", "lt"} })
                  \cup (IF Backend = "sqlalchemy" THEN {}
                        ELSE { <<0, Cmp(o, C1("date", dC), Lit("Date", x))>> : o \in {"eq", "gt"}, x \in {"2020-02-29", "2019-12-31"} })
                  \cup { <<1, Un("not", HB)>> } \cup { <<2, Bool("and", HB, HB)>> }
    [] h = "N" -> { <<0, Bin(o, nC, ff)>> : o \in {"div", "mul", "add"}, ff \in {FL("2.0"), FL("0.5"), FL("-0.5")} }
                  \cup { <<0, Bin("sub", FL("1.5"), nC)>>, <<0, Bin("div", mC, FL("2.0"))>> }
                  \* a literal midpoint as the direct argument (constant folding with another rounding rule shows)
                  \cup { <<0, FL(x)>> : x \in {"2.5", "0.5", "-2.5", "1.5", "-0.5"} }
    [] h = "I" -> { <<0, nC>>, <<0, mC>>, <<0, IntL(-2)>>, <<0, Bin("sub", nC, mC)>> }
ExpandFns(h) ==
  CASE h = "B" -> { <<0, Cmp(o, HI, IntL(k))>> : o \in {"eq", "gt"}, k \in {1, 2020} }
                  \cup { <<0, Cmp("lt", HT, T1)>>, <<0, Cmp("eq", C1("date", HT), Lit("Date", "2020-02-29"))>>,
                         <<0, Cmp("ge", Call(Id0("now"), <<>>), HT)>>, <<0, C2("contains", HS, SL(<<97>>))>>,
                         <<0, Cmp("eq", HS, SL(<<97, 98>>))>> }
                  \cup { <<1, Bool("and", HB, HB)>>, <<1, Un("not", HB)>> }
    [] h = "I" -> { <<0, nC>>, <<0, IntL(2)>> }
                  \cup { <<1, C1(f, HT)>> : f \in {"year", "month", "day", "hour", "minute"} }
                  \cup { <<1, C1(f, HI)>> : f \in {"round", "floor", "ceiling"} }
                  \cup { <<1, C1("length", HS)>>, <<1, C2("indexof", HS, HS)>>, <<1, Bin("mul", HI, HI)>>, <<1, Bin("sub", HI, HI)>>, <<1, Un("neg", HI)>> }
    [] h = "S" -> { <<0, sC>>, <<0, SL(<<97>>)>> }
                  \cup { <<1, C2("concat", HS, HS)>>, <<1, C1("trim", HS)>>, <<1, C2("substring", HS, HI)>>, <<1, C1("toupper", HS)>> }
    [] h = "T" -> { <<0, dC>>, <<0, T1>>, <<0, Call(Id0("now"), <<>>)>> }
\* temporal values: dates, times of day, durations, instants written with offsets, and the arithmetic between them.
\* Per backend only what its engine binding can represent: the raw SQLite dialect has no duration values
\* (INTERVAL syntax), SQLAlchemy on SQLite emulates Interval as a date-time (no arithmetic), stores naive
\* date-times (offset-bearing literals lose their offset in the driver) and CASTs to DATE/TIME numerically.
eC == Id0("e")  ddC == Id0("dd")  ttC == Id0("tt")  duC == Id0("du")
DL(x) == Lit("Date", x)  TL(x) == Lit("Time", x)  UL(x) == Lit("Duration", x)  XL(x) == Lit("DateTime", x)
\* UTC designator and date/time separator in either letter case
ZLits == { XL("2019-12-31T23:59:59z"), XL("2020-02-29t00:00:00Z") }
OffsetLits == { XL("2020-02-29T01:00:00+01:00"), XL("2020-02-28T23:00:00-01:00"), XL("2019-12-31T23:59:59Z"), XL("2021-01-01T15:35:00+05:30") }
DurLits == { UL("PT1H"), UL("P1D"), UL("PT0S"), UL("-PT1M"), UL("PT1S"), UL("P1DT1H") }
ExpandTemporal(h) ==
  CASE h = "B" -> { <<0, Cmp(o, ddC, DL(x))>> : o \in {"eq", "lt", "ge"}, x \in {"2020-02-29", "2021-01-01"} }
                  \cup (IF Backend = "sqlite" THEN {}       \* the SQL dialects refuse time-of-day literals and second()
                        ELSE { <<0, Cmp(o, ttC, TL(x))>> : o \in {"eq", "lt", "ge"}, x \in {"10:05:00", "00:00:00", "23:59:59"} }
                             \cup { <<0, Cmp("eq", C1("second", ttC), IntL(59))>> })
                  \cup { <<0, Cmp("eq", ddC, NullL)>>, <<0, Cmp("ne", ttC, NullL)>>, <<0, Cmp("in", ddC, Lst(<<DL("2019-12-31"), DL("2021-01-01")>>))>> }
                  \cup { <<0, Cmp("eq", C1(f, ddC), IntL(k))>> : <<f, k>> \in {<<"year", 2020>>, <<"month", 12>>, <<"day", 29>>} }
                  \cup { <<0, Cmp("eq", C1(f, ttC), IntL(k))>> : <<f, k>> \in {<<"hour", 10>>, <<"minute", 59>>} }
                  \cup { <<0, Cmp(o, HT, x)>> : o \in {"eq", "lt", "ge"}, x \in {T1, eC} \cup ZLits }
                  \cup (IF Backend = "sqlalchemy" THEN {} ELSE { <<0, Cmp(o, HT, x)>> : o \in {"eq", "gt"}, x \in OffsetLits })
                  \cup (IF Backend = "sqlite" THEN {}
                        ELSE { <<0, Cmp(o, duC, x)>> : o \in {"eq", "lt", "ge"}, x \in {UL("PT1H"), UL("PT0S"), UL("P1D")} }
                             \cup { <<0, Cmp("eq", duC, NullL)>>, <<0, Cmp("in", duC, Lst(<<UL("-PT1M"), UL("P1D")>>))>> })
                  \cup (IF Backend = "sqlalchemy" THEN {}
                        ELSE { <<0, Cmp(o, C1("date", HT), x)>> : o \in {"eq", "lt"}, x \in {ddC, DL("2020-02-29")} })
                  \cup (IF Backend # "django" THEN {}
                        ELSE { <<0, Cmp(o, C1("time", HT), x)>> : o \in {"eq", "ge"}, x \in {ttC, TL("00:00:00"), TL("10:05:00")} }
                             \cup { <<0, Cmp(o, Hole("U"), x)>> : o \in {"eq", "gt", "le"}, x \in {UL("PT1H"), UL("PT0S"), duC} }
                             \cup { <<0, Cmp(o, Bin("add", ddC, UL("P1D")), DL(x))>> : o \in {"eq", "lt"}, x \in {"2020-03-01", "2020-01-01", "2021-01-02"} }
                             \cup { <<0, Cmp("eq", Bin("sub", ddC, UL("P1D")), DL("2020-02-28"))>>,
                                    <<0, Cmp("ge", Bin("sub", ddC, DL("2020-02-28")), UL("P1D"))>> })
                  \cup { <<1, Bool("and", HB, HB)>>, <<1, Bool("or", HB, HB)>>, <<1, Un("not", HB)>> }
    [] h = "T" -> { <<0, dC>>, <<0, eC>> }
                  \cup (IF Backend # "django" THEN {}
                        ELSE { <<1, Bin(o, HT, x)>> : o \in {"add", "sub"}, x \in DurLits \cup {duC} })
    [] h = "U" -> { <<1, Bin("sub", HT, HT)>>, <<1, Bin("add", duC, duC)>>, <<1, Bin("sub", duC, UL("PT1H"))>>,
                    <<1, Bin("add", UL("PT1H"), duC)>>, <<0, duC>> }
\* long in-lists: databases, drivers and "optimisations" have thresholds (500, 999, 1000, 2100 items); membership
\* must not depend on where in a long list the value stands
LongInts(first, last) == Lst(<<first>> \o [i \in 1..LongN |-> IntL(100 + i)] \o <<last>>)
LongStrs(last) == Lst([i \in 1..(LongN + 1) |-> SL(<<107>> \o NatCps(i))] \o <<last>>)
ExpandLong(h) ==
  CASE h = "B" -> { <<0, Cmp("in", nC, LongInts(IntL(-2), IntL(3)))>>, <<0, Cmp("in", mC, LongInts(IntL(100), IntL(1)))>>,
                    <<0, Cmp("in", sC, LongStrs(SL(<<97>>)))>>, <<0, Cmp("eq", nC, IntL(0))>> }
                  \cup { <<1, Bool("and", HB, HB)>>, <<1, Bool("or", HB, HB)>>, <<1, Un("not", HB)>> }
Expand(h) == CASE Profile = "temporal" -> ExpandTemporal(h) [] Profile = "long" -> ExpandLong(h) [] Profile = "logic" -> ExpandLogic(h) [] Profile = "fns" -> ExpandFns(h) [] Profile = "math" -> ExpandMath(h) [] Profile = "arith" -> ExpandArith(h)
               [] Profile = "strings" -> ExpandStrings(h) [] Profile = "misc" -> ExpandMisc(h)

Init == t = HB /\ n = 0
Fill == LET h == FirstHole(t) IN
        /\ h # NoHole
        /\ \E e \in Expand(h[2]) : n + e[1] <= MaxOps /\ t' = FillFirst(t, e[2]) /\ n' = n + e[1]
Next == Fill
Complete == ~HasHole(t)

\* ---- meaning: valuations of the referenced columns (in ColOrder) for which the filter is TRUE
RefCols(x) == SelectSeq(ColOrder, LAMBDA c : c \in ColsOf(x))
RECURSIVE Tuples(_)
Tuples(cols) == IF cols = <<>> THEN {<<>>}
                ELSE { <<v>> \o e : v \in ColDom[cols[1]], e \in Tuples(Tail(cols)) }
EnvOf(cols, tup) == [c \in {cols[i] : i \in 1..Len(cols)} |-> tup[CHOOSE i \in 1..Len(cols) : cols[i] = c]]
Sat(x) == LET cols == RefCols(x) IN { tup \in Tuples(cols) : Eval(x, EnvOf(cols, tup)) = TRUEV }

\* The same filter under each named deviation of Sem: emitted only where it changes the meaning, so that a
\* mismatch of exactly that shape can be attributed to the corresponding known finding and any other cannot.
\*   like_dynamic_meta    - a LIKE pattern taken from data keeps its wildcards and LIKE's ASCII case folding
\*   concat_null_as_empty - concat treats NULL as the empty string (Django's Concat coalesces)
\*   round_trunc_plus_half - round(x) computed as TRUNC(x + 0.5) (wrong for negative x)
DevLike == INSTANCE Sem WITH Deviations <- {"like_dynamic_meta"}
DevConcat == INSTANCE Sem WITH Deviations <- {"concat_null_as_empty"}
DevRound == INSTANCE Sem WITH Deviations <- {"round_trunc_plus_half"}
RECURSIVE HasDynPattern(_), HasCall(_, _)
HasDynPattern(x) == \/ (x[1] = "Call" /\ x[2][3] \in {"contains", "startswith", "endswith"} /\ x[3][2][1] # "Lit")
                    \/ LET ks == Sub(x) IN \E i \in 1..Len(ks) : HasDynPattern(ks[i])
HasCall(x, f) == (x[1] = "Call" /\ x[2][3] = f) \/ LET ks == Sub(x) IN \E i \in 1..Len(ks) : HasCall(ks[i], f)
SatLike(x) == LET cols == RefCols(x) IN { tup \in Tuples(cols) : DevLike!Eval(x, EnvOf(cols, tup)) = TRUEV }
SatConcat(x) == LET cols == RefCols(x) IN { tup \in Tuples(cols) : DevConcat!Eval(x, EnvOf(cols, tup)) = TRUEV }
SatRound(x) == LET cols == RefCols(x) IN { tup \in Tuples(cols) : DevRound!Eval(x, EnvOf(cols, tup)) = TRUEV }
DevField == (IF HasDynPattern(t) /\ SatLike(t) # Sat(t) THEN << <<"like_dynamic_meta", SatLike(t)>> >> ELSE <<>>)
         \o (IF HasCall(t, "concat") /\ SatConcat(t) # Sat(t) THEN << <<"concat_null_as_empty", SatConcat(t)>> >> ELSE <<>>)
         \o (IF HasCall(t, "round") /\ SatRound(t) # Sat(t) THEN << <<"round_trunc_plus_half", SatRound(t)>> >> ELSE <<>>)

Export == PrintT(ToJson(IF Complete
            THEN [k |-> "case", tree |-> t, nops |-> n, cols |-> RefCols(t), sat |-> Sat(t), satdev |-> DevField,
                  min |-> TextOf(Pr(t, "min"), SP), full |-> TextOf(Pr(t, "fullbws"), SP)]
            ELSE IF t = HB THEN [k |-> "domain", dom |-> ColDom, order |-> ColOrder]
            ELSE [k |-> "partial"]))
=============================================================================
