---------------------------- MODULE Trace_Params ----------------------------
(***************************************************************************)
(* C08: validation of what the ORM backends hand to the driver for two     *)
(* filters that differ only in literal values.                             *)
(* Cases (JSON, env TRACE_FILE): records                                   *)
(*   [id, sql1, sql2 (compiled SQL text, code points), params1, params2    *)
(*    (sequences of code-point strings), needles1, needles2 (per literal   *)
(*    of the member: alternative spellings of the value as a parameter),   *)
(*    marks1, marks2 (distinctive spellings that must NOT occur in the     *)
(*    SQL text)]                                                           *)
(* Verdict: ok | sql-differs | sql-text-differs | escape-clause-only |     *)
(*          value-in-text |                                                *)
(*          value-not-bound                                                *)
(***************************************************************************)
EXTENDS SqlLex, Json, IOUtils, TLC
Cases == JsonDeserialize(IOEnv.TRACE_FILE)
VARIABLES lo, hi
Init == lo = 1 /\ hi = Len(Cases)
Split == /\ lo < hi
         /\ LET mid == (lo + hi) \div 2 IN \/ (lo' = lo /\ hi' = mid) \/ (lo' = mid + 1 /\ hi' = hi)
Next == Split
SubAt(p, x, i) == i + Len(p) - 1 <= Len(x) /\ SubSeq(x, i, i + Len(p) - 1) = p
Within(p, x) == Len(p) > 0 /\ \E i \in 1..(Len(x) + 1) : SubAt(p, x, i)
InText(toks, m) == \E i \in 1..Len(toks) : toks[i][1] \in {"STR", "NUM", "WORD", "QID"} /\ Within(UpperSeq(m), UpperSeq(toks[i][2]))
Bound(params, alts) == \E k \in 1..Len(alts) : \E j \in 1..Len(params) : Within(alts[k], params[j]) \/ (Len(alts[k]) = 0 /\ Len(params[j]) = 0)
\* drop  ESCAPE '<one char>'  clauses
RECURSIVE StripEsc(_)
StripEsc(ts) == IF Len(ts) < 2 THEN ts
                ELSE IF ts[1] = <<"WORD", StrCps("ESCAPE")>> /\ ts[2][1] = "STR" /\ Len(ts[2][2]) = 1 THEN StripEsc(SubSeq(ts, 3, Len(ts)))
                ELSE <<ts[1]>> \o StripEsc(Tail(ts))
\* the escape characters named by ESCAPE clauses
EscChars(ts) == { ts[i + 1][2] : i \in { j \in 1..(Len(ts) - 1) : ts[j] = <<"WORD", StrCps("ESCAPE")>> /\ ts[j + 1][1] = "STR" } }
VerdictOf(c) ==
  LET t1 == SqlTokens(c.sql1)  t2 == SqlTokens(c.sql2) IN
  \* "escape-clause-only": the two texts differ by the presence of ESCAPE clauses only, all naming ONE fixed character
  \* (a clause whose character depends on the value is a value-dependent piece of SQL text like any other)
  IF t1 # t2 THEN (IF StripEsc(t1) = StripEsc(t2) /\ (\A a, b \in EscChars(t1) \cup EscChars(t2) : a = b)
                   THEN "escape-clause-only" ELSE "sql-differs")
  \* the same tokens but not the same text: the difference sits in a comment or in the layout
  ELSE IF c.sql1 # c.sql2 THEN "sql-text-differs"
  ELSE IF \E i \in 1..Len(c.marks1) : InText(t1, c.marks1[i]) THEN "value-in-text"
  ELSE IF \E i \in 1..Len(c.marks2) : InText(t2, c.marks2[i]) THEN "value-in-text"
  ELSE IF \E i \in 1..Len(c.needles1) : ~Bound(c.params1, c.needles1[i]) THEN "value-not-bound"
  ELSE IF \E i \in 1..Len(c.needles2) : ~Bound(c.params2, c.needles2[i]) THEN "value-not-bound"
  ELSE "ok"
Verdict == (lo = hi /\ Len(Cases) > 0) =>
              PrintT(ToJson([k |-> "verdict", id |-> Cases[lo].id, v |-> VerdictOf(Cases[lo])]))
=============================================================================
