INIT Init
NEXT Next
CONSTANTS
  Inst = 0
  Deviations = {}
  CpsMode = FALSE
INVARIANT ResultSubsetOfBase
INVARIANT Export
CHECK_DEADLOCK FALSE
