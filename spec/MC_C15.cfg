INIT Init
NEXT Next
CONSTANTS
  Inst = 0
  Deep = FALSE
  Deviations = {}
  CpsMode = FALSE
INVARIANT ResultSubsetOfBase
INVARIANT Export
CHECK_DEADLOCK FALSE
