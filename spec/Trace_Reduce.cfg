INIT Init
NEXT Next
INVARIANT Verdict
CHECK_DEADLOCK FALSE
