------------------------------ MODULE Temporal ------------------------------
(***************************************************************************)
(* Calendar arithmetic and the meaning of temporal literals, for Sem.      *)
(*                                                                         *)
(* Values:  <<"t", y, mo, d, h, mi, s>>  instant (UTC civil time)          *)
(*          <<"d", y, mo, d>>            calendar date                     *)
(*          <<"tod", h, mi, s>>          time of day                       *)
(*          <<"dur", seconds>>           signed duration (day-time, whole  *)
(*                                       seconds)                          *)
(* Instants are kept in civil form (the form the extraction functions      *)
(* year()..second() read) and converted to a day number for arithmetic     *)
(* (proleptic Gregorian calendar; the day-number algorithms are the        *)
(* standard era-based ones and are self-checked below against each other   *)
(* and against known anchors).  A date-time literal with an offset denotes *)
(* the instant  local - offset;  one without offset is read as UTC.        *)
(***************************************************************************)
EXTENDS Cps

TmDaysFromCivil(y, m, d) ==
  LET yy  == IF m <= 2 THEN y - 1 ELSE y
      era == yy \div 400
      yoe == yy - era * 400
      mp  == IF m > 2 THEN m - 3 ELSE m + 9
      doy == (153 * mp + 2) \div 5 + d - 1
      doe == yoe * 365 + yoe \div 4 - yoe \div 100 + doy
  IN era * 146097 + doe - 719468            \* 0 = 1970-01-01
TmCivilFromDays(z0) ==
  LET z   == z0 + 719468
      era == z \div 146097
      doe == z - era * 146097
      yoe == (doe - doe \div 1460 + doe \div 36524 - doe \div 146096) \div 365
      doy == doe - (365 * yoe + yoe \div 4 - yoe \div 100)
      mp  == (5 * doy + 2) \div 153
      d   == doy - (153 * mp + 2) \div 5 + 1
      m   == IF mp < 10 THEN mp + 3 ELSE mp - 9
  IN << yoe + era * 400 + (IF m <= 2 THEN 1 ELSE 0), m, d >>

TmLeap(y) == (y % 4 = 0 /\ y % 100 # 0) \/ y % 400 = 0
TmDim(y, m) == IF m = 2 THEN (IF TmLeap(y) THEN 29 ELSE 28) ELSE IF m \in {4, 6, 9, 11} THEN 30 ELSE 31
ASSUME TmDaysFromCivil(1970, 1, 1) = 0 /\ TmDaysFromCivil(2000, 3, 1) = 11017 /\ TmDaysFromCivil(2020, 2, 29) = 18321
ASSUME \A y \in 2018..2022 : \A m \in 1..12 : \A d \in 1..TmDim(y, m) : TmCivilFromDays(TmDaysFromCivil(y, m, d)) = <<y, m, d>>
\* consecutive days get consecutive numbers (month and year boundaries, leap day)
ASSUME \A z \in 17800..19000 : LET c == TmCivilFromDays(z) IN TmDaysFromCivil(c[1], c[2], c[3]) = z

TmSod(t) == t[5] * 3600 + t[6] * 60 + t[7]
TmAddSecs(t, k) ==
  LET tot == TmSod(t) + k
      nd  == TmDaysFromCivil(t[2], t[3], t[4]) + tot \div 86400
      ns  == tot % 86400
      c   == TmCivilFromDays(nd)
  IN <<"t", c[1], c[2], c[3], ns \div 3600, (ns % 3600) \div 60, ns % 60>>
TmDiff(a, b) == (TmDaysFromCivil(a[2], a[3], a[4]) - TmDaysFromCivil(b[2], b[3], b[4])) * 86400 + TmSod(a) - TmSod(b)
TmAddDays(dv, k) == LET c == TmCivilFromDays(TmDaysFromCivil(dv[2], dv[3], dv[4]) + k) IN <<"d", c[1], c[2], c[3]>>
TmDateDiff(a, b) == (TmDaysFromCivil(a[2], a[3], a[4]) - TmDaysFromCivil(b[2], b[3], b[4])) * 86400

\* arithmetic on temporal values (NULL handled by the caller); anything else is not generated
TmArith(o, a, b) ==
  CASE a[1] = "t"   /\ b[1] = "dur" /\ o = "add" -> TmAddSecs(a, b[2])
    [] a[1] = "t"   /\ b[1] = "dur" /\ o = "sub" -> TmAddSecs(a, -b[2])
    [] a[1] = "t"   /\ b[1] = "t"   /\ o = "sub" -> <<"dur", TmDiff(a, b)>>
    [] a[1] = "dur" /\ b[1] = "dur" /\ o = "add" -> <<"dur", a[2] + b[2]>>
    [] a[1] = "dur" /\ b[1] = "dur" /\ o = "sub" -> <<"dur", a[2] - b[2]>>
    [] a[1] = "d"   /\ b[1] = "dur" /\ o = "add" -> TmAddDays(a, b[2] \div 86400)
    [] a[1] = "d"   /\ b[1] = "dur" /\ o = "sub" -> TmAddDays(a, (-b[2]) \div 86400)
    [] a[1] = "d"   /\ b[1] = "d"   /\ o = "sub" -> <<"dur", TmDateDiff(a, b)>>

\* ---- literals: value of the literal's text (code points)
TmN2(x, i) == (x[i] - 48) * 10 + (x[i + 1] - 48)
TmN4(x, i) == TmN2(x, i) * 100 + TmN2(x, i + 2)
TmDateOf(x) == <<"d", TmN4(x, 1), TmN2(x, 6), TmN2(x, 9)>>
TmTimeOf(x) == <<"tod", TmN2(x, 1), TmN2(x, 4), IF Len(x) >= 8 THEN TmN2(x, 7) ELSE 0>>
TmDateTimeOf(x) ==
  LET hasSec == Len(x) >= 19 /\ x[17] = 58
      p      == IF hasSec THEN 20 ELSE 17                       \* where the offset starts
      local  == <<"t", TmN4(x, 1), TmN2(x, 6), TmN2(x, 9), TmN2(x, 12), TmN2(x, 15), IF hasSec THEN TmN2(x, 18) ELSE 0>>
      off    == IF p > Len(x) \/ x[p] \in {90, 122} THEN 0
                ELSE (IF x[p] = 45 THEN -1 ELSE 1) * (TmN2(x, p + 1) * 60 + TmN2(x, p + 4))
  IN TmAddSecs(local, -(off * 60))
\* ISO 8601 day-time duration with integer components:  [-] P [nD] [T [nH] [nM] [nS]]
RECURSIVE TmDurScan(_, _, _, _, _)
TmDurScan(x, i, num, acc, inTime) ==
  IF i > Len(x) THEN acc
  ELSE LET c == x[i] IN
       IF IsDigit(c) THEN TmDurScan(x, i + 1, num * 10 + (c - 48), acc, inTime)
       ELSE IF c \in {84, 116} THEN TmDurScan(x, i + 1, 0, acc, TRUE)
       ELSE LET unit == CASE c \in {68, 100} -> 86400 [] c \in {72, 104} -> 3600
                          [] c \in {77, 109} -> 60 [] c \in {83, 115} -> 1 [] OTHER -> 0
            IN TmDurScan(x, i + 1, 0, acc + num * unit, inTime)
TmDurationOf(x) == IF x[1] = 45 THEN <<"dur", -TmDurScan(x, 2, 0, 0, FALSE)>> ELSE <<"dur", TmDurScan(x, 1, 0, 0, FALSE)>>

ASSUME TmDateTimeOf(StrCps("2020-02-29T01:00:00+01:00")) = <<"t", 2020, 2, 29, 0, 0, 0>>
ASSUME TmDateTimeOf(StrCps("2019-12-31T23:30:00-00:30")) = <<"t", 2020, 1, 1, 0, 0, 0>>
ASSUME TmDateTimeOf(StrCps("2021-01-01T10:05Z")) = <<"t", 2021, 1, 1, 10, 5, 0>>
ASSUME TmDurationOf(StrCps("P1DT2H3M4S")) = <<"dur", 93784>> /\ TmDurationOf(StrCps("-PT1M")) = <<"dur", -60>>
ASSUME TmAddSecs(<<"t", 2020, 2, 28, 23, 59, 59>>, 1) = <<"t", 2020, 2, 29, 0, 0, 0>>
ASSUME TmAddSecs(<<"t", 2020, 3, 1, 0, 0, 0>>, -1) = <<"t", 2020, 2, 29, 23, 59, 59>>
ASSUME TmAddSecs(<<"t", 2019, 12, 31, 23, 59, 59>>, 86400) = <<"t", 2021 - 1, 1, 1, 23, 59, 59>>
=============================================================================
