------------------------------ MODULE MC_C20 ------------------------------
(***************************************************************************)
(* C20: the session machine for lexer / parser instance reuse.             *)
(*                                                                         *)
(* Instances: lexers L1,L2 and parsers P1,P2.  A call binds one lexer and  *)
(* one parser to a probe text and consumes the text token by token (the    *)
(* real lexer is a lazy generator pulled by the parser); it ends with an   *)
(* outcome.  Calls on disjoint instances may be in flight together and     *)
(* interleave at token granularity; a lexer or parser is never shared by   *)
(* two in-flight calls.                                                    *)
(*                                                                         *)
(* The specification of C20 is that the outcome of a call is a function of *)
(* its text alone:  outcome(call) = ParseText(text(call)).  Instance state *)
(* (`last`) records what each instance went through - including calls that *)
(* raised - and nothing reads it.  TLC explores all histories/schedules    *)
(* within the bounds; every complete behaviour is exported as a schedule   *)
(* (sequence of segments <<call, pulls>>) and replayed on real instances.  *)
(***************************************************************************)
EXTENDS Lex, Json, FiniteSets
CONSTANTS MaxCalls, MaxSwitches, MaxInFlight, Sequential, ProbeSet
VARIABLES calls, active, sched, last, switches

ProbeStrs == << "a eq 1",
                "substring(name, 1) eq 'a'",
                "substring(name) eq 'a'",
                "tolower(substring(name)) eq 'a'",
                "foo(1) eq 2",
                "a eq",
                "a eq ) b",
                ") a",
                "a eq #",
                "a eq 'x",
                "concat(a, 'b', 'c') eq 'x'",
                "(a eq 1 and b eq 2) or not (c in (1, 2, 3)) and d/any(x: x/e gt 1.5)",
                "now() gt d",
                "now(1) gt d",
                "f.g(k=1, m='it''s')",
                "nullable eq null and x/all(v: v eq true)",
                "geo.distance(a, b) lt 5 and trim(s) eq 'a'",
                "distance(a, b) lt 5",
                "geo.trim(s) eq 'a'",
                \* a geography literal, terminated and not: a lexer that enters a sub-state for the body must leave it
                "geo.length(r) gt geography'LINESTRING(1 2, 3 4)",
                "geo.intersects(r, geography'POINT(1 2)')",
                \* an in-list with repeated items (order and arity are part of the result)
                "status in ('open', 'closed', 'on hold', 'open') or id in (3, 1, 2, 3, 1)",
                \* a syntax error AT a slash (a lexer that switches mode after "/" must switch back), then inputs that
                \* begin with a keyword
                "(a)/b eq 1", "a/", "null eq x", "not a", "true",
                \* a lexical error right after a keyword-like word (anything held back for one token must not survive the
                \* error), then inputs that begin with a parenthesis / a name
                "not#", "(a eq 1)", "a#",
                \* many unclosed and many unopened parentheses (a nesting counter kept on the instance must start afresh)
                "((((((((((((((((((((((((((((((((((((((((((((((((((((((((((((((((((((((((((((((((((((((((((((((((((((((((((((((((((((((((((((((((((((((((((((a", "a))))))))))))))))))))))))))))))))))))))))))))))))))))))))))))))))))))))))))))))))))))))))))))))))))))))))))))))))))))))))))))))))))))))))))))", "(a eq 1) and (b in (1, 2))", "a/b/c gt 1 and a/b/c lt 5" >>
NProbes == Len(ProbeStrs)
ProbeCps == [i \in 1..NProbes |-> StrCps(ProbeStrs[i])]
Outcome == [i \in 1..NProbes |-> ParseText(ProbeCps[i])]
\* number of token pulls a complete run needs: all tokens + end of input (an upper bound for failing runs)
NPulls == [i \in 1..NProbes |-> Len(LexText(ProbeCps[i]).toks) + 1]

Pairs == IF Sequential THEN { <<"L1", "P1">>, <<"L2", "P2">>, <<"L1", "P2">> }
         ELSE { <<"L1", "P1">>, <<"L2", "P2">> }
Insts == {"L1", "L2", "P1", "P2"}

InFlight == { i \in 1..Len(calls) : ~calls[i].done }
Busy == UNION { {calls[i].lex, calls[i].par} : i \in InFlight }

Init == calls = <<>> /\ active = 0 /\ sched = <<>> /\ last = [x \in Insts |-> "fresh"] /\ switches = 0

\* start a new call; it becomes the active one
Begin == /\ Len(calls) < MaxCalls /\ Cardinality(InFlight) < MaxInFlight
         /\ (Sequential => InFlight = {})
         /\ \E pr \in Pairs, p \in ProbeSet :
              /\ pr[1] \notin Busy /\ pr[2] \notin Busy
              /\ calls' = Append(calls, [lex |-> pr[1], par |-> pr[2], probe |-> p, pos |-> 0, done |-> FALSE])
              /\ active' = Len(calls) + 1
              /\ sched' = Append(sched, <<Len(calls) + 1, 0>>)
              /\ switches' = IF active = 0 \/ active \notin InFlight THEN switches ELSE switches + 1
         /\ UNCHANGED last
\* the active call pulls one token
Pull == /\ active \in InFlight /\ calls[active].pos < NPulls[calls[active].probe]
        /\ calls' = [calls EXCEPT ![active].pos = @ + 1]
        /\ sched' = [sched EXCEPT ![Len(sched)][2] = @ + 1]
        /\ UNCHANGED <<active, last, switches>>
\* the active call has consumed its input: it returns / raises, the instances keep a trace of it
End == /\ active \in InFlight /\ calls[active].pos = NPulls[calls[active].probe]
       /\ calls' = [calls EXCEPT ![active].done = TRUE]
       /\ last' = [last EXCEPT ![calls[active].lex] = Outcome[calls[active].probe][1],
                               ![calls[active].par] = Outcome[calls[active].probe][1]]
       /\ UNCHANGED <<active, sched, switches>>
\* hand control to another in-flight call
Switch == /\ ~Sequential /\ switches < MaxSwitches
          /\ \E j \in InFlight : /\ j # active
                                 /\ active' = j /\ sched' = Append(sched, <<j, 0>>)
          /\ switches' = switches + 1
          /\ UNCHANGED <<calls, last>>
Next == Begin \/ Pull \/ End \/ Switch

\* ---- properties of the design
NoSharedInstance == \A i, j \in InFlight : i # j => calls[i].lex # calls[j].lex /\ calls[i].par # calls[j].par
ActiveSane == active = 0 \/ active \in 1..Len(calls)
\* in sequential histories a call runs to completion before the next begins
Complete == InFlight = {} /\ Len(calls) >= 1

Export == PrintT(ToJson(IF Complete
            THEN [k |-> "case",
                  calls |-> [i \in 1..Len(calls) |-> [lex |-> calls[i].lex, par |-> calls[i].par, probe |-> calls[i].probe]],
                  sched |-> sched]
            ELSE [k |-> "partial"]))
=============================================================================
