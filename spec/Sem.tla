-------------------------------- MODULE Sem --------------------------------
(***************************************************************************)
(* Meaning of scalar $filter expressions over one row.                     *)
(*                                                                         *)
(* Values:  NULL | <<"i", n>> | <<"s", cps>> | <<"b", TRUE/FALSE>>         *)
(*          | <<"t", y, mo, d, h, mi, s>> | <<"d", y, mo, d>>              *)
(*          | <<"tod", h, mi, s>> | <<"dur", seconds>>   (module Temporal) *)
(* Logic is Kleene three-valued (and / or / not); arithmetic, comparisons  *)
(* and functions propagate NULL; `x eq null` / `x ne null` (literal null   *)
(* on either side) are null tests; `in` is a disjunction of equalities;    *)
(* `div` truncates, `mod` takes the sign of the dividend; strings are      *)
(* sequences of code points compared lexicographically; indexof and        *)
(* substring are 0-based.  A row is selected iff the filter is TRUE.       *)
(*                                                                         *)
(* Deviations (a set of names, normally {}) switch on behaviours that are  *)
(* NOT OData but that a known finding attributes to a backend; with {}     *)
(* this module is the reference.                                           *)
(***************************************************************************)
EXTENDS Ast, Temporal
CONSTANT Deviations

NULL == <<"null">>
IV(n) == <<"i", n>>
SV(s) == <<"s", s>>
BV(b) == <<"b", b>>
TV(y, mo, d, h, mi, s) == <<"t", y, mo, d, h, mi, s>>
TRUEV == BV(TRUE)
FALSEV == BV(FALSE)

\* ------------------------------------------------------------------ logic
And3(a, b) == IF a = FALSEV \/ b = FALSEV THEN FALSEV ELSE IF a = NULL \/ b = NULL THEN NULL ELSE TRUEV
Or3(a, b)  == IF a = TRUEV \/ b = TRUEV THEN TRUEV ELSE IF a = NULL \/ b = NULL THEN NULL ELSE FALSEV
Not3(a)    == IF a = NULL THEN NULL ELSE BV(~a[2])

\* ------------------------------------------------------------------ arithmetic
Abs(x) == IF x < 0 THEN -x ELSE x
Sgn(x) == IF x < 0 THEN -1 ELSE 1
Tdiv(a, b) == Sgn(a) * Sgn(b) * (Abs(a) \div Abs(b))          \* truncating division
Tmod(a, b) == a - b * Tdiv(a, b)                               \* remainder with the sign of the dividend
\* fractional numbers are exact rationals <<"q", num, den>> with den > 0 (decimal literals and results of
\* arithmetic on them); integer div stays truncating only when both operands are integers
QV(p, q) == <<"q", p, q>>
NumOf(a) == IF a[1] = "i" THEN a[2] ELSE a[2]
DenOf(a) == IF a[1] = "i" THEN 1 ELSE a[3]
RECURSIVE Gcd(_, _)
Gcd(x, y) == IF y = 0 THEN x ELSE Gcd(y, x % y)
NormQ(p, q) == LET g == Gcd(Abs(p), q) IN IF g = 0 THEN QV(0, 1) ELSE QV(p \div g, q \div g)
ArithQ(o, a, b) ==
  LET p1 == NumOf(a) q1 == DenOf(a) p2 == NumOf(b) q2 == DenOf(b) IN
  CASE o = "add" -> NormQ(p1 * q2 + p2 * q1, q1 * q2)
    [] o = "sub" -> NormQ(p1 * q2 - p2 * q1, q1 * q2)
    [] o = "mul" -> NormQ(p1 * p2, q1 * q2)
    [] o = "div" -> IF p2 = 0 THEN NULL ELSE NormQ(Sgn(p2) * p1 * q2, q1 * Abs(p2))
IsTemporal(a) == a[1] \in {"t", "d", "tod", "dur"}
Arith(o, a, b) ==
  IF a = NULL \/ b = NULL THEN NULL
  ELSE IF IsTemporal(a) \/ IsTemporal(b) THEN TmArith(o, a, b)
  ELSE IF a[1] = "q" \/ b[1] = "q" THEN ArithQ(o, a, b)
  ELSE IF o \in {"div", "mod"} /\ b[2] = 0 THEN NULL            \* excluded by the generators; SQLite yields NULL
  ELSE IV(CASE o = "add" -> a[2] + b[2] [] o = "sub" -> a[2] - b[2] [] o = "mul" -> a[2] * b[2]
            [] o = "div" -> Tdiv(a[2], b[2]) [] o = "mod" -> Tmod(a[2], b[2]))

\* ------------------------------------------------------------------ comparison
RECURSIVE SeqLt(_, _)
SeqLt(x, y) == IF Len(y) = 0 THEN FALSE ELSE IF Len(x) = 0 THEN TRUE
               ELSE IF x[1] # y[1] THEN x[1] < y[1] ELSE SeqLt(Tail(x), Tail(y))
IsNum(a) == a[1] \in {"i", "q"}
Lt(a, b) == CASE IsNum(a) -> NumOf(a) * DenOf(b) < NumOf(b) * DenOf(a)
              [] a[1] = "s" -> SeqLt(a[2], b[2])
              [] a[1] = "b" -> (~a[2]) /\ b[2]
              [] a[1] \in {"t", "d", "tod"} -> SeqLt(Tail(a), Tail(b))
              [] a[1] = "dur" -> a[2] < b[2]
\* A decimal literal too large for TLC's integers (1e19): only its sign is kept.  It compares above (below) every
\* number the generators produce; two of them compare by sign.  No arithmetic on it (the generators do none).
IsHuge(v) == v[1] = "huge"
HugeSign(v) == IF IsHuge(v) THEN v[2] ELSE 0
Compare(o, a, b) ==
  IF a = NULL \/ b = NULL THEN NULL
  ELSE IF IsHuge(a) \/ IsHuge(b) THEN
       LET same == IsHuge(a) /\ IsHuge(b) /\ a[2] = b[2]
           lt == HugeSign(a) < HugeSign(b)  gt == HugeSign(b) < HugeSign(a) IN
       BV(CASE o = "eq" -> same [] o = "ne" -> ~same [] o = "lt" -> lt [] o = "le" -> lt \/ same
            [] o = "gt" -> gt [] o = "ge" -> gt \/ same)
  ELSE LET same == IF IsNum(a) THEN NumOf(a) * DenOf(b) = NumOf(b) * DenOf(a) ELSE a = b IN
       BV(CASE o = "eq" -> same [] o = "ne" -> ~same
            [] o = "lt" -> Lt(a, b) [] o = "le" -> Lt(a, b) \/ same
            [] o = "gt" -> Lt(b, a) [] o = "ge" -> Lt(b, a) \/ same)

\* ------------------------------------------------------------------ strings
StartsAt(p, x, i) == i + Len(p) - 1 <= Len(x) /\ SubSeq(x, i, i + Len(p) - 1) = p
Contains(x, p) == \E i \in 1..(Len(x) + 1) : StartsAt(p, x, i)
IndexOf(x, p) == IF Contains(x, p) THEN (CHOOSE i \in 1..(Len(x) + 1) : StartsAt(p, x, i) /\ \A j \in 1..(i - 1) : ~StartsAt(p, x, j)) - 1
                 ELSE -1
EndsWith(x, p) == Len(p) <= Len(x) /\ SubSeq(x, Len(x) - Len(p) + 1, Len(x)) = p
LowerC(c) == IF c >= 65 /\ c <= 90 THEN c + 32 ELSE c
UpperC(c) == IF c >= 97 /\ c <= 122 THEN c - 32 ELSE c
RECURSIVE TrimL(_), TrimR(_)
TrimL(x) == IF x # <<>> /\ x[1] = 32 THEN TrimL(Tail(x)) ELSE x
TrimR(x) == IF x # <<>> /\ x[Len(x)] = 32 THEN TrimR(SubSeq(x, 1, Len(x) - 1)) ELSE x
Min2(a, b) == IF a < b THEN a ELSE b
\* substring(x, i [, k]) : 0-based start, k characters (to the end when absent); i >= 0, k >= 0 by construction
Substr(x, i, k) == IF i >= Len(x) THEN <<>> ELSE SubSeq(x, i + 1, IF k < 0 THEN Len(x) ELSE Min2(Len(x), i + k))

\* SQL LIKE with % and _ wildcards and no escape character (only used by deviations)
RECURSIVE LikeMatch(_, _)
LikeMatch(p, x) ==
  IF p = <<>> THEN x = <<>>
  ELSE IF p[1] = 37 THEN \E k \in 0..Len(x) : LikeMatch(Tail(p), SubSeq(x, k + 1, Len(x)))
  ELSE IF x = <<>> THEN FALSE
  ELSE (p[1] = 95 \/ LowerC(p[1]) = LowerC(x[1])) /\ LikeMatch(Tail(p), Tail(x))

StrFn2(f, a0, b0, patternIsLiteral) ==
  LET a == IF f = "concat" /\ "concat_null_as_empty" \in Deviations /\ a0 = NULL THEN SV(<<>>) ELSE a0
      b == IF f = "concat" /\ "concat_null_as_empty" \in Deviations /\ b0 = NULL THEN SV(<<>>) ELSE b0
  IN
  IF a = NULL \/ b = NULL THEN NULL
  ELSE IF "like_dynamic_meta" \in Deviations /\ ~patternIsLiteral /\ f \in {"contains", "startswith", "endswith"}
       THEN BV(LikeMatch((IF f = "startswith" THEN <<>> ELSE <<37>>) \o b[2] \o (IF f = "endswith" THEN <<>> ELSE <<37>>), a[2]))
  ELSE CASE f = "contains"   -> BV(Contains(a[2], b[2]))
         [] f = "startswith" -> BV(StartsAt(b[2], a[2], 1))
         [] f = "endswith"   -> BV(EndsWith(a[2], b[2]))
         [] f = "indexof"    -> IV(IndexOf(a[2], b[2]))
         [] f = "concat"     -> SV(a[2] \o b[2])

\* ------------------------------------------------------------------ literals
\* decimal literals: the exact rational value of the literal's text  [-]digits[.digits][e[+-]digits]
RECURSIVE Pow10(_)
Pow10(k) == IF k = 0 THEN 1 ELSE 10 * Pow10(k - 1)
RECURSIVE DecDigits(_, _, _, _)
DecDigits(x, i, j, acc) == IF i > j THEN acc ELSE DecDigits(x, i + 1, j, IF IsDigit(x[i]) THEN acc * 10 + (x[i] - 48) ELSE acc)
FirstAt(x, cs, from) == IF \E i \in from..Len(x) : x[i] \in cs THEN CHOOSE i \in from..Len(x) : x[i] \in cs /\ \A j \in from..(i - 1) : x[j] \notin cs
                        ELSE Len(x) + 1
DecimalOf(x) ==
  LET neg  == x[1] = 45
      st   == IF neg THEN 2 ELSE 1
      ePos == FirstAt(x, {69, 101}, st)
      dPos == FirstAt(SubSeq(x, 1, ePos - 1), {46}, st)
      man  == DecDigits(x, st, ePos - 1, 0)
      frac == IF dPos < ePos THEN ePos - dPos - 1 ELSE 0
      eNeg == ePos < Len(x) /\ x[ePos + 1] = 45
      eAbs == IF ePos > Len(x) THEN 0 ELSE DecDigits(x, ePos + 1, Len(x), 0)
      exp  == (IF eNeg THEN -eAbs ELSE eAbs) - frac
      sgn  == IF neg THEN -1 ELSE 1
  IN IF man = 0 THEN QV(0, 1)
     ELSE IF exp >= 9 THEN <<"huge", sgn>>
     ELSE IF exp >= 0 THEN NormQ(sgn * man * Pow10(exp), 1) ELSE NormQ(sgn * man, Pow10(-exp))
ASSUME DecimalOf(StrCps("2.0")) = QV(2, 1) /\ DecimalOf(StrCps("-0.5")) = QV(-1, 2) /\ DecimalOf(StrCps("2.5e-1")) = QV(1, 4)
ASSUME DecimalOf(StrCps("1e19")) = <<"huge", 1>> /\ DecimalOf(StrCps("-1.5E19")) = <<"huge", -1>> /\ DecimalOf(StrCps("0e19")) = QV(0, 1)
ASSUME Compare("lt", IV(5), <<"huge", 1>>) = BV(TRUE) /\ Compare("ge", QV(1, 2), <<"huge", -1>>) = BV(TRUE) /\ Compare("eq", IV(0), <<"huge", 1>>) = BV(FALSE)
ASSUME DecimalOf(StrCps("1e-7")) = QV(1, 10000000) /\ DecimalOf(StrCps("1E3")) = QV(1000, 1) /\ DecimalOf(StrCps("1.5e+1")) = QV(15, 1)
LitVal(k, v) == CASE k = "Null" -> NULL
                  [] k = "Integer" -> IV(v)
                  [] k = "Float" -> DecimalOf(StrCps(v))
                  [] k = "String" -> SV(v)
                  [] k = "Boolean" -> BV(LowerSeq(StrCps(v)) = StrCps("true"))
                  \* temporal literals: the value is computed from the literal's text (module Temporal)
                  [] k = "DateTime" -> TmDateTimeOf(StrCps(v))
                  [] k = "Date" -> TmDateOf(StrCps(v))
                  [] k = "Time" -> TmTimeOf(StrCps(v))
                  [] k = "Duration" -> TmDurationOf(StrCps(v))
                  \* a GUID literal: its text (the generators never compare GUIDs that differ in letter case only, so the
                  \* textual and the by-value reading of GUID equality coincide)
                  [] k = "GUID" -> SV(StrCps(v))

\* ------------------------------------------------------------------ evaluation
IsNullLit(t) == t[1] = "Lit" /\ t[2] = "Null"
RECURSIVE Eval(_, _)
\* built-in function f applied to already evaluated arguments; patLit: the 2nd argument was a literal
ApplyFn(f, vals, patLit) ==
  LET a == vals[1] IN
  CASE f \in {"contains", "startswith", "endswith", "indexof", "concat"} -> StrFn2(f, a, vals[2], patLit)
    [] f = "length"  -> IF a = NULL THEN NULL ELSE IV(Len(a[2]))
    [] f = "tolower" -> IF a = NULL THEN NULL ELSE SV([i \in 1..Len(a[2]) |-> LowerC(a[2][i])])
    [] f = "toupper" -> IF a = NULL THEN NULL ELSE SV([i \in 1..Len(a[2]) |-> UpperC(a[2][i])])
    [] f = "trim"    -> IF a = NULL THEN NULL ELSE SV(TrimR(TrimL(a[2])))
    [] f = "substring" -> LET i == vals[2]
                              k == IF Len(vals) = 3 THEN vals[3] ELSE IV(-1)
                          IN IF a = NULL \/ i = NULL \/ k = NULL THEN NULL ELSE SV(Substr(a[2], i[2], k[2]))
    [] f \in {"round", "floor", "ceiling"} ->
         IF a = NULL THEN NULL
         ELSE LET pn == NumOf(a)  qd == DenOf(a)
                  r == CASE f = "floor" -> pn \div qd
                         [] f = "ceiling" -> -((-pn) \div qd)
                         [] f = "round" -> IF "round_trunc_plus_half" \in Deviations
                                           THEN Tdiv(2 * pn + qd, 2 * qd)                          \* TRUNC(x + 0.5)
                                           ELSE Sgn(pn) * ((2 * Abs(pn) + qd) \div (2 * qd))        \* midpoint away from zero
              IN IF a[1] = "i" THEN IV(r) ELSE QV(r, 1)
    [] f = "date"   -> IF a = NULL THEN NULL ELSE <<"d", a[2], a[3], a[4]>>
    [] f = "year"   -> IF a = NULL THEN NULL ELSE IV(a[2])
    [] f = "month"  -> IF a = NULL THEN NULL ELSE IV(a[3])
    [] f = "day"    -> IF a = NULL THEN NULL ELSE IV(a[4])
    [] f = "time"   -> IF a = NULL THEN NULL ELSE <<"tod", a[5], a[6], a[7]>>
    [] f = "hour"   -> IF a = NULL THEN NULL ELSE IV(IF a[1] = "tod" THEN a[2] ELSE a[5])
    [] f = "minute" -> IF a = NULL THEN NULL ELSE IV(IF a[1] = "tod" THEN a[3] ELSE a[6])
    [] f = "second" -> IF a = NULL THEN NULL ELSE IV(IF a[1] = "tod" THEN a[4] ELSE a[7])
EvalCall(f, args, env) == ApplyFn(f, [i \in 1..Len(args) |-> Eval(args[i], env)], Len(args) >= 2 /\ args[2][1] = "Lit")
Eval(t, env) ==
  CASE t[1] = "Id"   -> env[t[3]]
    [] t[1] = "Lit"  -> LitVal(t[2], t[3])
    [] t[1] = "Bin"  -> Arith(t[2], Eval(t[3], env), Eval(t[4], env))
    [] t[1] = "Un"   -> IF t[2] = "not" THEN Not3(Eval(t[3], env))
                        ELSE LET a == Eval(t[3], env) IN
                             IF a = NULL THEN NULL ELSE IF a[1] = "q" THEN QV(-a[2], a[3])
                             ELSE IF a[1] = "dur" THEN <<"dur", -a[2]>> ELSE IV(-a[2])
    [] t[1] = "Bool" -> IF t[2] = "and" THEN And3(Eval(t[3], env), Eval(t[4], env)) ELSE Or3(Eval(t[3], env), Eval(t[4], env))
    [] t[1] = "Cmp"  ->
         IF t[2] = "in" THEN
            LET a == Eval(t[3], env)
                F[i \in 0..Len(t[4][2])] == IF i = 0 THEN FALSEV ELSE Or3(F[i - 1], Compare("eq", a, Eval(t[4][2][i], env)))
            IN F[Len(t[4][2])]
         ELSE IF t[2] \in {"eq", "ne"} /\ (IsNullLit(t[3]) \/ IsNullLit(t[4])) THEN
            LET x == IF IsNullLit(t[4]) THEN Eval(t[3], env) ELSE Eval(t[4], env) IN
            BV((x = NULL) = (t[2] = "eq"))
         ELSE Compare(t[2], Eval(t[3], env), Eval(t[4], env))
    [] t[1] = "Call" -> EvalCall(t[2][3], t[3], env)

\* ------------------------------------------------------------------ rows
RECURSIVE ColsOf(_)
ColsOf(t) == IF t[1] = "Id" THEN {t[3]}
             ELSE IF t[1] = "Call" THEN UNION { ColsOf(t[3][i]) : i \in 1..Len(t[3]) }
             ELSE LET ks == Sub(t) IN UNION { ColsOf(ks[i]) : i \in 1..Len(ks) }
=============================================================================
