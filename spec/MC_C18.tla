------------------------------ MODULE MC_C18 ------------------------------
(***************************************************************************)
(* C18: typed expression generator.  Holes carry the type the generator    *)
(* intends; every expansion of a hole of type T is a term of type T by the *)
(* OData signatures.  Invariant: Typing!TypeOf (computed bottom-up,        *)
(* independently of the hole sorts) agrees with the intended type.         *)
(***************************************************************************)
EXTENDS OData, Typing, Json
CONSTANTS MaxOps
VARIABLES t, n, root

H(ty) == Hole(ty)
C1(f, x) == Call(Id0(f), <<x>>)
C2(f, x, y) == Call(Id0(f), <<x, y>>)
G2(f, x, y) == Call(Id(<<"geo">>, f), <<x, y>>)
Q == 39
Geo == Lit("Geography", "POINT(1 2)")
IntList == Lst(<<IntL(1), IntL(2)>>)   StrList == Lst(<<StrL(<<97>>), StrL(<<98>>)>>)
\* ill-typed calls of the functions overloaded on strings and collections: no argument can be a string or a collection
WrongLits == { IntL(5), Lit("Float", "1.5"), BoolL("true"), Lit("Date", "2020-02-29"), Lit("Time", "12:30:00"), Lit("DateTime", "2020-02-29T12:30:00Z"),
               Lit("Duration", "P1DT2H"), Lit("GUID", "01234567-89ab-cdef-0123-456789abcdef"), Geo, NullL }
\* (literals only: for a nested call or an arithmetic term the inferred type may be 'unknown', and then nothing has to be rejected)
WrongArgs == WrongLits
IllTyped == { C2(fn, x, y) : fn \in StringFns, x \in {Id0("s"), Attr(Id0("a"), "name")} \cup WrongLits, y \in WrongArgs }
            \cup { C2(fn, x, Id0("s")) : fn \in StringFns, x \in WrongArgs }
            \cup { C1("length", w) : w \in WrongArgs } \cup { C2("substring", w, IntL(1)) : w \in WrongArgs }
Expand(ty) ==
  CASE ty = "Integer" -> { <<0, IntL(1)>>, <<0, Id0("n")>> }
          \cup { <<1, C1("length", H("String"))>>, <<1, C1("length", H("List"))>>, <<1, C2("indexof", H("String"), H("String"))>>,
                 <<1, C1("year", H("DateTime"))>>, <<1, C1("month", H("Date"))>>, <<1, C1("day", H("DateTime"))>>,
                 <<1, C1("hour", H("DateTime"))>>, <<1, C1("minute", H("Time"))>>, <<1, C1("second", H("DateTime"))>>,
                 <<1, C1("totaloffsetminutes", H("DateTime"))>>,
                 <<1, Bin("add", H("Integer"), H("Integer"))>>, <<1, Bin("mod", H("Integer"), IntL(3))>>, <<1, Un("neg", H("Integer"))>> }
    [] ty = "Float" -> { <<0, Lit("Float", "1.5")>>, <<0, Id0("f")>> }
          \cup { <<1, C1("round", H("Float"))>>, <<1, C1("floor", H("Float"))>>, <<1, C1("ceiling", H("Float"))>>,
                 <<1, C1("fractionalseconds", H("DateTime"))>>, <<1, C1("totalseconds", H("Duration"))>>,
                 <<1, G2("distance", H("Geography"), H("Geography"))>>, <<1, Call(Id(<<"geo">>, "length"), <<Id0("g")>>)>>,
                 <<1, Bin("mul", H("Float"), H("Integer"))>>, <<1, Bin("div", H("Integer"), H("Float"))>> }
    [] ty = "String" -> { <<0, StrL(<<97, Q, 98>>)>>, <<0, Id0("s")>> }
          \cup { <<1, C1("tolower", H("String"))>>, <<1, C1("toupper", H("String"))>>, <<1, C1("trim", H("String"))>>,
                 <<1, C2("concat", H("String"), H("String"))>>, <<1, C2("substring", H("String"), H("Integer"))>>,
                 <<1, Call(Id0("substring"), <<H("String"), H("Integer"), IntL(2)>>)>> }
    [] ty = "Boolean" -> { <<0, BoolL("true")>>, <<0, Id0("b")>> }
          \cup { <<1, C2("contains", H("String"), H("String"))>>, <<1, C2("startswith", H("String"), H("String"))>>,
                 <<1, C2("endswith", H("String"), H("String"))>>, <<1, C2("matchesPattern", H("String"), StrL(<<94, 97>>))>>,
                 <<1, C2("hassubset", H("List"), H("List"))>>, <<1, C2("hassubsequence", H("List"), IntList)>>,
                 <<1, G2("intersects", H("Geography"), H("Geography"))>>,
                 <<1, Cmp("eq", H("Integer"), H("Integer"))>>, <<1, Cmp("lt", H("Float"), H("Integer"))>>,
                 <<1, Cmp("ne", H("String"), NullL)>>, <<1, Cmp("ge", H("DateTime"), H("DateTime"))>>,
                 <<1, Cmp("eq", H("Date"), H("Date"))>>, <<1, Cmp("in", H("Integer"), IntList)>>,
                 <<1, Cmp("eq", H("Boolean"), H("Boolean"))>>, <<1, Cmp("eq", H("Duration"), H("Duration"))>>,
                 <<1, Cmp("eq", Id0("id"), Lit("GUID", "01234567-89ab-cdef-0123-456789abcdef"))>>,
                 <<1, Bool("and", H("Boolean"), H("Boolean"))>>, <<1, Bool("or", H("Boolean"), BoolL("false"))>>,
                 <<1, Un("not", H("Boolean"))>>, <<1, Coll(Id0("cs"), "any", Lam(Id0("x"), H("Boolean")))>> }
    [] ty = "Date" -> { <<0, Lit("Date", "2020-02-29")>>, <<0, Id0("dd")>>, <<1, C1("date", H("DateTime"))>>,
                        <<1, Bin("add", H("Date"), H("Duration"))>> }
    [] ty = "Time" -> { <<0, Lit("Time", "12:30:00")>>, <<0, Id0("tt")>>, <<1, C1("time", H("DateTime"))>> }
    [] ty = "DateTime" -> { <<0, Lit("DateTime", "2020-02-29T12:30:00Z")>>, <<0, Id0("d")>>,
                            <<1, Call(Id0("now"), <<>>)>>, <<1, Call(Id0("mindatetime"), <<>>)>>, <<1, Call(Id0("maxdatetime"), <<>>)>>,
                            <<1, Bin("add", H("DateTime"), H("Duration"))>>, <<1, Bin("sub", H("DateTime"), H("Duration"))>> }
    [] ty = "Duration" -> { <<0, Lit("Duration", "P1DT2H")>>, <<0, Id0("du")>>, <<1, Bin("sub", H("DateTime"), H("DateTime"))>>,
                            <<1, Bin("add", H("Duration"), H("Duration"))>> }
    [] ty = "List" -> { <<0, IntList>>, <<0, StrList>>, <<0, Id0("l")>>,
                        <<1, C2("concat", H("List"), H("List"))>>, <<1, C2("substring", H("List"), H("Integer"))>> }

    [] ty = "Geography" -> { <<0, Geo>>, <<0, Lit("Geography", "SRID=4326;POINT(3 4)")>>, <<0, Id0("g")>> }
    [] ty = "GUID" -> { <<0, Lit("GUID", "01234567-89ab-cdef-0123-456789abcdef")>>, <<0, Id0("id")>> }
    [] ty = "IllTyped" -> { <<1, x>> : x \in IllTyped }

Types == {"Integer", "Float", "String", "Boolean", "Date", "Time", "DateTime", "Duration", "List", "Geography", "GUID"}
Init == root \in Types \cup {"IllTyped"} /\ t = H(root) /\ n = 0
Fill == LET h == FirstHole(t) IN
        /\ h # NoHole
        /\ \E e \in Expand(h[2]) : n + e[1] <= MaxOps /\ t' = FillFirst(t, e[2]) /\ n' = n + e[1]
        /\ UNCHANGED root
Next == Fill
Complete == ~HasHole(t)

GeneratorIsWellTyped == (Complete /\ root # "IllTyped") => TypeOf(t) = root
IllTypedMustBeRejected == (Complete /\ root = "IllTyped") => MustReject(t)
\* named deviations: where a backend performs no type check at all for a function there is nothing that could reject.
\* SQLite's LENGTH applies to a value of any type; the ORM backends check contains / startswith / endswith only.
NoTypeCheck == { <<"sqlite", "length">> } \cup { <<bk, fn>> : bk \in {"django", "sa-orm", "sa-core"}, fn \in {"indexof", "length", "substring"} }
Export == PrintT(ToJson(IF Complete THEN [k |-> "case", tree |-> t, type |-> root, nops |-> n,
                                          exempt |-> IF root = "IllTyped" THEN { e[1] : e \in { x \in NoTypeCheck : x[2] = t[2][3] } } ELSE {}] ELSE [k |-> "partial"]))
=============================================================================
