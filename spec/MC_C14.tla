------------------------------ MODULE MC_C14 ------------------------------
(***************************************************************************)
(* C14: (tree, alias map) pairs.  Trees come from a derivation machine     *)
(* whose atoms are chosen to collide with alias keys in every way the      *)
(* property lists (bare identifier, maximal path, owner prefix, function   *)
(* name, named-parameter name, lambda variable).  The expected result is   *)
(* Rewrite!Subst.  Design laws checked on the spec: empty / non-matching   *)
(* maps are the identity, a fresh-name bijection followed by its inverse   *)
(* restores the tree.                                                      *)
(***************************************************************************)
EXTENDS OData, Rewrite, Json
CONSTANTS MaxOps
VARIABLES t, n, m

a == Id0("a")  b == Id0("b")  x == Id0("x")  one == IntL(1)
ab == Attr(a, "b")  abc == Attr(ab, "c")  bc == Attr(b, "c")  ac == Attr(a, "c")
E == Hole("e")
nsa == Id(<<"ns">>, "a")        \* a namespaced field: a different field from plain `a`
Atoms == { a, b, ab, abc, bc, ac, nsa, Attr(nsa, "b"), Attr(Attr(nsa, "b"), "c"), Id0("date"), Id0("k"), one, StrL(<<97>>),
           Call(Id0("date"), <<Id0("date")>>), Call(Id0("length"), <<Id0("length")>>),
           Call(Id(<<"f">>, "g"), <<Named(Id0("k"), Id0("k")), Named(Id0("a"), ab)>>),
           Coll(Id0("cs"), "any", Lam(x, Cmp("eq", Attr(x, "a"), a))),
           Coll(ab, "all", Lam(a, Cmp("eq", Attr(a, "b"), b))),
           Coll(a, "any", Lam(x, Cmp("eq", x, Attr(Attr(x, "a"), "b")))),
           Coll(Id0("cs"), "any", Lam(x, Coll(Attr(x, "ds"), "any", Lam(Id0("k"), Cmp("eq", Attr(Id0("k"), "a"), Attr(x, "b")))))),
           \* nested lambdas binding the SAME name; the outer variable is used again after the inner lambda
           Coll(Id0("cs"), "any", Lam(x, Bool("and", Coll(Attr(x, "ds"), "any", Lam(x, Cmp("eq", Attr(x, "a"), one))), Cmp("eq", Attr(x, "b"), x)))),
           Coll(Id0("cs"), "all", Lam(a, Bool("or", Coll(Attr(a, "b"), "all", Lam(a, Cmp("eq", a, b))), Cmp("eq", a, ab)))),
           Coll(a, "any", None), Lst(<<a, ab>>), Cmp("in", a, Lst(<<b, one>>)),
           \* explicit right-hand grouping of one connective (substitution keeps the shape of the tree)
           Bool("and", Cmp("eq", a, one), Bool("and", Cmp("eq", b, one), Cmp("eq", ab, one))),
           Bool("or", Cmp("eq", ab, b), Bool("or", Cmp("eq", a, one), Bool("or", Cmp("eq", b, one), Cmp("eq", x, one)))) }
Expand(s) == { <<0, y>> : y \in Atoms }
       \cup { <<1, BinNode(o, E, E)>> : o \in {"eq", "and", "add"} }
       \cup { <<1, Un("not", E)>>, <<1, Call(Id0("concat"), <<E, E>>)>>, <<1, Lst(<<E, one>>)>>,
              <<1, Coll(Id0("cs"), "any", Lam(Id0("v"), E))>> }

\* alias maps: functions key-tree -> target-tree
Map1(k, v) == [z \in {k} |-> v]
Map2(k1, v1, k2, v2) == [z \in {k1, k2} |-> IF z = k1 THEN v1 ELSE v2]
z_ == Id0("z")
Maps == << [z \in {} |-> z],                                    \* 1 empty
           Map1(a, z_),                                          \* 2 bare identifier
           Map1(a, Attr(Id0("p"), "q")),                         \* 3 identifier -> path
           Map1(ab, Id0("ab_")),                                 \* 4 maximal path / owner prefix of a/b/c
           Map2(a, z_, ab, Id0("ab_")),                          \* 5 overlapping keys: longest wins
           Map1(ab, Attr(Id0("p"), "q")),                        \* 6 path -> path
           Map1(Id0("date"), Id0("created_at")),                 \* 7 key = a function name in use
           Map1(Id0("length"), Id0("len2")),                     \* 8
           Map1(Id0("k"), Id0("kk")),                            \* 9 key = named-parameter name / inner lambda variable
           Map1(x, Id0("y")),                                    \* 10 key = lambda variable
           Map1(a, Call(Id0("concat"), <<b, StrL(<<120>>)>>)),   \* 11 call target
           Map1(Id0("zz"), a),                                   \* 12 non-matching
           Map2(a, b, b, a),                                     \* 13 swap: simultaneous, not chained
           Map2(a, b, bc, Id0("hit")),                           \* 14 a/c -> b/c (not re-substituted)
           Map2(a, Id0("a_"), b, Id0("b_")),                     \* 15 fresh-name bijection
           Map1(abc, Id0("deep")),                               \* 16 3-segment key
           Map1(Id0("cs"), Attr(Id0("org"), "cs")),              \* 17 collection owner
           Map1(nsa, Id0("nz")),                                 \* 18 namespaced key: ns.a only, never plain a
           Map2(a, Id(<<"Sales">>, "total"), Attr(nsa, "b"), Attr(Id(<<"q">>, "r"), "s")) >>   \* 19 namespaced targets, namespaced path key
Inverse15 == Map2(Id0("a_"), a, Id0("b_"), b)

Init == t = E /\ n = 0 /\ m = 0
Fill == /\ m = 0
        /\ LET h == FirstHole(t) IN
           /\ h # NoHole
           /\ \E e \in Expand(h[2]) : n + e[1] <= MaxOps /\ t' = FillFirst(t, e[2]) /\ n' = n + e[1]
        /\ UNCHANGED m
PickMap == /\ m = 0 /\ ~HasHole(t) /\ \E i \in 1..Len(Maps) : m' = i
           /\ UNCHANGED <<t, n>>
Next == Fill \/ PickMap
IsCase == m # 0

Expected == Subst(t, Maps[m])
EmptyIsIdentity == (IsCase /\ m \in {1, 12}) => Expected = t
BijectionRoundTrip == (IsCase /\ m = 15) => Subst(Expected, Inverse15) = t

\* alias maps are given to the library as OData text
MapText(sg) == LET ks == DOMAIN sg IN
               { << Spell(Pr(k, "min"), " "), Spell(Pr(sg[k], "min"), " ") >> : k \in ks }
Export == PrintT(ToJson(IF IsCase
            THEN [k |-> "case", tree |-> t, map |-> m, aliases |-> MapText(Maps[m]), expected |-> Expected,
                  inverse |-> IF m = 15 THEN MapText(Inverse15) ELSE {}, nops |-> n]
            ELSE [k |-> "partial"]))
=============================================================================
