------------------------------ MODULE MC_C17 ------------------------------
(***************************************************************************)
(* C17: (expression, variable) pairs for expression_relative_to_identifier.*)
(* Atoms are paths of depth 1..4 rooted at the variable, at other roots,   *)
(* at a namespaced identifier with the same name, paths that contain the   *)
(* variable's name as an inner segment, the bare variable, and nested      *)
(* lambdas (binding a different name) whose owner and body mention the     *)
(* variable.  Expected result: Rewrite!Relative.                           *)
(***************************************************************************)
EXTENDS OData, Rewrite, Json
CONSTANTS MaxOps
VARIABLES t, n, v

Vars == { Id0("x"), Id0("y"), Id0("a") }
P(root, segs) == LET F[i \in 0..Len(segs)] == IF i = 0 THEN root ELSE Attr(F[i - 1], segs[i]) IN F[Len(segs)]
x == Id0("x")  y == Id0("y")  a == Id0("a")  nsx == Id(<<"ns">>, "x")
one == IntL(1)
E == Hole("e")
Atoms == { x, y, a, one, StrL(<<97, 39, 39, 39, 39, 98>>), Cmp("eq", P(x, <<"a">>), StrL(<<39, 39, 39>>)),
           P(x, <<"a">>), P(x, <<"a", "b">>), P(x, <<"a", "b", "c">>), P(x, <<"a", "b", "c", "d">>),
           P(x, <<"x">>), P(x, <<"x", "x">>), P(y, <<"x">>), P(y, <<"x", "a">>), P(a, <<"x", "y">>),
           P(nsx, <<"a">>), P(nsx, <<"a", "b">>), P(y, <<"a">>), P(a, <<"a">>), P(a, <<"a", "a">>),
           Coll(P(x, <<"cs">>), "any", None), Coll(P(y, <<"cs">>), "any", None),
           Coll(P(x, <<"cs">>), "any", Lam(Id0("k"), Cmp("eq", P(Id0("k"), <<"n">>), P(x, <<"m">>)))),
           Coll(P(x, <<"p", "cs">>), "all", Lam(y, Cmp("eq", P(y, <<"n", "q">>), P(x, <<"m", "q">>)))),
           Coll(P(y, <<"cs">>), "any", Lam(Id0("k"), Cmp("eq", P(Id0("k"), <<"x">>), P(x, <<"k">>)))),
           Call(Id0("x"), <<P(x, <<"a">>)>>), Call(Id(<<"x">>, "f"), <<Named(x, P(x, <<"a">>))>>),
           \* explicitly grouped right operands with the operator of their parent (a rewrite must keep the grouping)
           Bin("sub", P(x, <<"a">>), Bin("sub", P(x, <<"a", "b">>), one)), Bin("div", one, Bin("div", P(x, <<"a">>), y)),
           Bool("and", Cmp("eq", P(x, <<"a">>), one), Bool("and", Cmp("eq", y, one), Cmp("eq", P(x, <<"a">>), y))),
           Bool("or", Cmp("eq", y, one), Bool("or", Cmp("eq", P(y, <<"a">>), one), Cmp("eq", a, y))) }
Expand(s) == { <<0, z>> : z \in Atoms }
       \cup { <<1, BinNode(o, E, E)>> : o \in {"eq", "and", "add"} }
       \cup { <<1, Un(o, E)>> : o \in PreOps }
       \cup { <<1, Call(Id0("concat"), <<E, E>>)>>, <<1, Lst(<<E, one>>)>>, <<1, Cmp("in", E, Lst(<<one, P(x, <<"a">>)>>))>>,
              <<1, Coll(Id0("cs"), "any", Lam(Id0("w"), E))>>, <<1, Call(Id0("tolower"), <<E>>)>> }

NoVar == <<"novar">>
Init == t = E /\ n = 0 /\ v = NoVar
Fill == /\ v = NoVar
        /\ LET h == FirstHole(t) IN
           /\ h # NoHole
           /\ \E e \in Expand(h[2]) : n + e[1] <= MaxOps /\ t' = FillFirst(t, e[2]) /\ n' = n + e[1]
        /\ UNCHANGED v
PickVar == /\ v = NoVar /\ ~HasHole(t) /\ \E z \in Vars : v' = z
           /\ UNCHANGED <<t, n>>
Next == Fill \/ PickVar
IsCase == v # NoVar
Expected == Relative(t, v)

RECURSIVE HasPathRootedAt(_, _)
HasPathRootedAt(u, z) == (u[1] = "Attr" /\ RootOf(u) = z)
                         \/ LET ks == Sub(u) IN \E i \in 1..Len(ks) : HasPathRootedAt(ks[i], z)
\* design law: no path rooted at the variable => identity
IdentityWhenAbsent == (IsCase /\ ~HasPathRootedAt(t, v)) => Expected = t
\* design law: the result has one path segment less for every path rooted at the variable, and none more
Export == PrintT(ToJson(IF IsCase THEN [k |-> "case", tree |-> t, var |-> v, expected |-> Expected, nops |-> n]
                        ELSE [k |-> "partial"]))
=============================================================================
