INIT Init
NEXT Next
CONSTANTS
  MaxOps = 2
  CpsMode = FALSE
INVARIANT GeneratorIsWellTyped
INVARIANT Export
CHECK_DEADLOCK FALSE
