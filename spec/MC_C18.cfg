INIT Init
NEXT Next
CONSTANTS
  MaxOps = 2
  CpsMode = FALSE
INVARIANT GeneratorIsWellTyped
INVARIANT IllTypedMustBeRejected
INVARIANT Export
CHECK_DEADLOCK FALSE
