------------------------------- MODULE Ast -------------------------------
(***************************************************************************)
(* Abstract syntax of OData $filter expressions as tagged tuples.          *)
(*                                                                         *)
(*   <<"Id",   ns, name>>          ns : Seq(STRING), name : STRING         *)
(*   <<"Attr", owner, name>>       owner : node, name : STRING             *)
(*   <<"Lit",  kind, val>>         kind : LitKinds, val : spelling/value   *)
(*   <<"List", items>>             items : Seq(node)                       *)
(*   <<"Bin",  op, l, r>>          op \in ArithOps                         *)
(*   <<"Cmp",  op, l, r>>          op \in CmpOps  (incl. "in")             *)
(*   <<"Bool", op, l, r>>          op \in BoolOps                          *)
(*   <<"Un",   op, x>>             op \in {"not", "neg"}                   *)
(*   <<"Call", id, args>>          id : Id node, args : Seq(node)          *)
(*   <<"Named", id, x>>            named parameter                         *)
(*   <<"Lam",  id, body>>          lambda (variable, body)                 *)
(*   <<"Coll", owner, q, lam>>     q \in {"any","all"}, lam : Lam | None   *)
(*   <<"Hole", sort>>              a not-yet-derived subtree (generators)  *)
(*                                                                         *)
(* Integer literals carry a TLA+ integer, strings carry a sequence of      *)
(* Unicode code points, all other literal kinds carry their spelling.      *)
(* The harness projects odata_query.ast nodes to exactly this shape        *)
(* (harness/project.py), so equality of trees is JSON equality.            *)
(***************************************************************************)
EXTENDS Naturals, Integers, Sequences, FiniteSets

ArithOps == {"add", "sub", "mul", "div", "mod"}
CmpOps   == {"eq", "ne", "lt", "le", "gt", "ge", "in"}
BoolOps  == {"and", "or"}
PreOps   == {"not", "neg"}
LitKinds == {"Null", "Integer", "Float", "Boolean", "String", "Geography",
             "Date", "Time", "DateTime", "Duration", "GUID"}

None == <<"None">>

Id(ns, n)        == <<"Id", ns, n>>
Id0(n)           == <<"Id", <<>>, n>>
Attr(o, n)       == <<"Attr", o, n>>
Lit(k, v)        == <<"Lit", k, v>>
IntL(n)          == <<"Lit", "Integer", n>>
StrL(cps)        == <<"Lit", "String", cps>>
BoolL(s)         == <<"Lit", "Boolean", s>>
NullL            == <<"Lit", "Null", "null">>
Lst(xs)          == <<"List", xs>>
Bin(o, l, r)     == <<"Bin", o, l, r>>
Cmp(o, l, r)     == <<"Cmp", o, l, r>>
Bool(o, l, r)    == <<"Bool", o, l, r>>
Un(o, x)         == <<"Un", o, x>>
Call(f, xs)      == <<"Call", f, xs>>
Named(n, x)      == <<"Named", n, x>>
Lam(v, b)        == <<"Lam", v, b>>
Coll(o, q, lam)  == <<"Coll", o, q, lam>>
Hole(s)          == <<"Hole", s>>

\* binary node of the right class for operator o
BinNode(o, l, r) == IF o \in ArithOps THEN Bin(o, l, r)
                    ELSE IF o \in CmpOps THEN Cmp(o, l, r) ELSE Bool(o, l, r)

Kind(t)   == t[1]
IsBinary(t) == t[1] \in {"Bin", "Cmp", "Bool"}
IsHole(t) == t[1] = "Hole"

(***************************************************************************)
(* Generic structure: Sub(t) is the sequence of child nodes in the field   *)
(* order of the dataclasses (list fields flattened), Rebuild(t, ks) puts   *)
(* a new child sequence of the same length back.                           *)
(***************************************************************************)
Sub(t) ==
  CASE t[1] \in {"Id", "Lit", "Hole", "None"} -> <<>>
    [] t[1] = "Attr"  -> <<t[2]>>
    [] t[1] = "List"  -> t[2]
    [] t[1] \in {"Bin", "Cmp", "Bool"} -> <<t[3], t[4]>>
    [] t[1] = "Un"    -> <<t[3]>>
    [] t[1] = "Call"  -> <<t[2]>> \o t[3]
    [] t[1] = "Named" -> <<t[2], t[3]>>
    [] t[1] = "Lam"   -> <<t[2], t[3]>>
    [] t[1] = "Coll"  -> IF t[4] = None THEN <<t[2]>> ELSE <<t[2], t[4]>>

Rebuild(t, ks) ==
  CASE t[1] \in {"Id", "Lit", "Hole", "None"} -> t
    [] t[1] = "Attr"  -> Attr(ks[1], t[3])
    [] t[1] = "List"  -> Lst(ks)
    [] t[1] \in {"Bin", "Cmp", "Bool"} -> <<t[1], t[2], ks[1], ks[2]>>
    [] t[1] = "Un"    -> Un(t[2], ks[1])
    [] t[1] = "Call"  -> Call(ks[1], Tail(ks))
    [] t[1] = "Named" -> Named(ks[1], ks[2])
    [] t[1] = "Lam"   -> Lam(ks[1], ks[2])
    [] t[1] = "Coll"  -> IF t[4] = None THEN Coll(ks[1], t[3], None) ELSE Coll(ks[1], t[3], ks[2])

RECURSIVE HasHole(_), FirstHole(_), FillFirst(_, _), Size(_), NodesPre(_)

AnyOf(s, P(_)) == \E i \in 1..Len(s) : P(s[i])

HasHole(t) == IF IsHole(t) THEN TRUE
              ELSE LET ks == Sub(t) IN \E i \in 1..Len(ks) : HasHole(ks[i])

NoHole == <<"NoHole">>
\* leftmost hole (in field order) or NoHole
FirstHole(t) == IF IsHole(t) THEN t
                ELSE LET ks == Sub(t)
                         idx == {i \in 1..Len(ks) : HasHole(ks[i])}
                     IN IF idx = {} THEN NoHole
                        ELSE FirstHole(ks[CHOOSE i \in idx : \A j \in idx : i <= j])

\* replace the leftmost hole of t by y
FillFirst(t, y) == IF IsHole(t) THEN y
                   ELSE LET ks == Sub(t)
                            idx == {i \in 1..Len(ks) : HasHole(ks[i])}
                        IN IF idx = {} THEN t
                           ELSE LET k == CHOOSE i \in idx : \A j \in idx : i <= j
                                IN Rebuild(t, [ks EXCEPT ![k] = FillFirst(ks[k], y)])

\* number of nodes (operator tokens are not counted separately)
Size(t) == LET ks == Sub(t)
               F[i \in 0..Len(ks)] == IF i = 0 THEN 0 ELSE F[i - 1] + Size(ks[i])
           IN 1 + F[Len(ks)]

\* all nodes in pre-order
NodesPre(t) == LET ks == Sub(t)
                   F[i \in 0..Len(ks)] == IF i = 0 THEN <<>> ELSE F[i - 1] \o NodesPre(ks[i])
               IN <<t>> \o F[Len(ks)]

=============================================================================
