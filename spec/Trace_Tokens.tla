---------------------------- MODULE Trace_Tokens ----------------------------
(***************************************************************************)
(* Trace validation of the real lexer's token stream against Lex.tla.      *)
(* Cases (JSON, env TRACE_FILE): records [id, text (code points),          *)
(*   toks: sequence of <<TYPE, v1, v2>>] where TYPE is the SLY token type   *)
(*   and v1/v2 the projected value (literal: <<val>>; identifier:          *)
(*   <<namespace parts, name>>; others: empty).                            *)
(* The spec lexes the same text; its token i determines the type and value *)
(* the real token i must have.  Verdict:                                   *)
(*   ok | noverdict | spec-lexerror | count-differs | mismatch (at = i)    *)
(***************************************************************************)
EXTENDS Lex, Json, IOUtils
Cases == JsonDeserialize(IOEnv.TRACE_FILE)
VARIABLES lo, hi
Init == lo = 1 /\ hi = Len(Cases)
Split == /\ lo < hi
         /\ LET mid == (lo + hi) \div 2 IN \/ (lo' = lo /\ hi' = mid) \/ (lo' = mid + 1 /\ hi' = hi)
Next == Split

LitType == [ Integer |-> "INTEGER", Float |-> "DECIMAL", String |-> "STRING", Boolean |-> "BOOLEAN", Null |-> "NULL",
             GUID |-> "GUID", Date |-> "DATE", Time |-> "TIME", DateTime |-> "DATETIME", Duration |-> "DURATION",
             Geography |-> "GEOGRAPHY" ]
OpType == [ add |-> "ADD", sub |-> "SUB", mul |-> "MUL", div |-> "DIV", mod |-> "MOD", and |-> "AND", or |-> "OR",
            eq |-> "EQ", ne |-> "NE", lt |-> "LT", le |-> "LE", gt |-> "GT", ge |-> "GE", in |-> "IN" ]
\* what the real token must look like for spec token t
Expected(t) ==
  CASE t[1] = "id"  -> <<"ODATA_IDENTIFIER", t[2], t[3]>>
    [] t[1] = "lit" -> <<LitType[t[2]], t[3], <<>>>>
    [] t[1] = "op"  -> <<OpType[t[2]], <<>>, <<>>>>
    [] t[1] = "not" -> <<"NOT", <<>>, <<>>>>
    [] t[1] = "neg" -> <<"UMINUS", <<>>, <<>>>>
    [] t[1] = "any" -> <<"ANY", <<>>, <<>>>>
    [] t[1] = "all" -> <<"ALL", <<>>, <<>>>>
    [] t[1] = "ws"  -> <<"WS", <<>>, <<>>>>
    [] OTHER -> <<t[1], <<>>, <<>>>>
VerdictOf(c) ==
  LET l == LexText(c.text) IN
  IF l.st = "unknown" THEN <<"noverdict", 0>>
  ELSE IF l.st = "lexerror" THEN <<"spec-lexerror", l.pos>>
  ELSE IF Len(l.toks) # Len(c.toks) THEN <<"count-differs", Len(l.toks)>>
  ELSE LET bad == { i \in 1..Len(c.toks) : Expected(l.toks[i]) # c.toks[i] } IN
       IF bad = {} THEN <<"ok", 0>> ELSE <<"mismatch", CHOOSE i \in bad : \A j \in bad : i <= j>>
Verdict == (lo = hi /\ Len(Cases) > 0) =>
              LET v == VerdictOf(Cases[lo]) IN PrintT(ToJson([k |-> "verdict", id |-> Cases[lo].id, v |-> v[1], at |-> v[2]]))
=============================================================================
