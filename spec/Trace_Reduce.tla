---------------------------- MODULE Trace_Reduce ----------------------------
(***************************************************************************)
(* Trace validation of the parser's reductions.  Cases (JSON, TRACE_FILE): *)
(*   [id, tree (the AST returned), events (the node created by each        *)
(*    node-creating reduction, in order)].                                 *)
(* TraceReduce consumes events[pos] iff it is the next event of            *)
(* Reduce!ReduceTrace(tree).  Verdict: ok | mismatch | missing-events |    *)
(* extra-events (at = position).                                           *)
(***************************************************************************)
EXTENDS Reduce, Json, IOUtils, TLC
Cases == JsonDeserialize(IOEnv.TRACE_FILE)
VARIABLES lo, hi, pos, started
Init == lo = 1 /\ hi = Len(Cases) /\ pos = 1 /\ started = FALSE
Split == /\ lo < hi /\ ~started
         /\ LET mid == (lo + hi) \div 2 IN \/ (lo' = lo /\ hi' = mid) \/ (lo' = mid + 1 /\ hi' = hi)
         /\ UNCHANGED <<pos, started>>
C == Cases[lo]
Expected == ReduceTrace(C.tree)
Start == lo = hi /\ ~started /\ Len(Cases) > 0 /\ started' = TRUE /\ pos' = 1 /\ UNCHANGED <<lo, hi>>
TraceReduce == /\ started /\ pos <= Len(C.events) /\ pos <= Len(Expected)
               /\ C.events[pos] = Expected[pos]
               /\ pos' = pos + 1 /\ UNCHANGED <<lo, hi, started>>
Next == Split \/ Start \/ TraceReduce
Stuck == started /\ ~(pos <= Len(C.events) /\ pos <= Len(Expected) /\ C.events[pos] = Expected[pos])
VerdictOf == IF pos = Len(C.events) + 1 /\ pos = Len(Expected) + 1 THEN "ok"
             ELSE IF pos > Len(C.events) THEN "missing-events"
             ELSE IF pos > Len(Expected) THEN "extra-events" ELSE "mismatch"
Verdict == Stuck => PrintT(ToJson([k |-> "verdict", id |-> C.id, v |-> VerdictOf, at |-> pos]))
=============================================================================
