------------------------------ MODULE MC_C11 ------------------------------
(***************************************************************************)
(* C11: every (function name, argument count, argument style, context).    *)
(* The expected outcome (call tree, unknown-function error, argument-count *)
(* error with its payload) is computed by the reference parser machine     *)
(* from the Functions table of OData.tla.                                  *)
(***************************************************************************)
EXTENDS OData, Json
VARIABLES f, n, style, ctxt

a == Id0("a")  one == IntL(1)
BuiltinNames == { Id0(x) : x \in DOMAIN Functions } \cup { Id(<<"geo">>, x) : x \in DOMAIN GeoFunctions }
NearMiss == { Id0("Length"), Id0("CONCAT"), Id0("matchespattern"), Id0("MatchesPattern"), Id0("len"), Id0("lengths"),
              Id0("distance"), Id0("intersects"), Id0("foo"), Id0("not"), Id0("isof"), Id0("cast"),
              Id(<<"geo">>, "contains"), Id(<<"geo">>, "Length"), Id(<<"geo">>, "area"), Id(<<"Geo">>, "length"),
              Id(<<"geo", "x">>, "length"), Id(<<"x", "geo">>, "length"),
              \* names with non-ASCII word characters (the lexer's \w and its case folding are Unicode-aware)
              Id0("ſubstring"), Id0("straße"), Id0("tolower²"), Id(<<"geo">>, "diſtance") }
Custom == { Id(<<"f">>, "length"), Id(<<"my">>, "func"), Id(<<"x", "y">>, "now"), Id(<<"odata">>, "concat"),
            \* namespaces that are fragments or extensions of "geo": still custom namespaces
            Id(<<"g">>, "distance"), Id(<<"ge">>, "length"), Id(<<"eo">>, "intersects"), Id(<<"o">>, "trim"), Id(<<"geog">>, "length"),
            Id(<<"ns">>, "größe"), Id(<<"maß">>, "norm") }
Names == BuiltinNames \cup NearMiss \cup Custom
Styles == {"lit", "call", "list", "path", "mixed", "named", "namedrev", "uniid", "samelit", "altlit"}

ArgOf(s, i) == CASE s = "lit"  -> IntL(i)
                 [] s = "call" -> Call(Id0("tolower"), <<StrL(<<96 + i>>)>>)
                 [] s = "list" -> Lst(<<IntL(i)>>)
                 [] s = "path" -> Attr(a, "p")
                 [] s = "mixed" -> (CASE i % 4 = 1 -> a [] i % 4 = 2 -> Cmp("eq", a, one)
                                      [] i % 4 = 3 -> Lst(<<one, a>>) [] OTHER -> Un("neg", a))
                 [] s = "named" -> Named(Id0(CASE i = 1 -> "p" [] i = 2 -> "q" [] i = 3 -> "r" [] i = 4 -> "s" [] OTHER -> "t"), IntL(i))
                 \* named parameters whose names are NOT in alphabetical order, and identifiers with non-ASCII letters
                 [] s = "namedrev" -> Named(Id0(CASE i = 1 -> "t" [] i = 2 -> "beta" [] i = 3 -> "r" [] i = 4 -> "alpha" [] OTHER -> "a"), IntL(i))
                 \* equal literal arguments: each one counts
                 [] s = "samelit" -> StrL(<<97, 98>>)
                 [] s = "altlit" -> IntL(1 + (i % 2))
                 [] s = "uniid" -> Id0(IF i % 2 = 1 THEN "naïve" ELSE "café")
TheCall == Call(f, [i \in 1..n |-> ArgOf(style, i)])
InCtx(c) == CASE ctxt = "alone" -> c
              [] ctxt = "cmp"   -> Cmp("eq", c, one)
              [] ctxt = "arg"   -> Call(Id(<<"w">>, "rap"), <<one, c>>)
              [] ctxt = "list"  -> Cmp("in", a, Lst(<<c, one>>))
              [] ctxt = "lam"   -> Coll(Id0("cs"), "any", Lam(Id0("x"), Bool("and", c, BoolL("true"))))
              \* inside the argument list of a VALID built-in call (a check made on the finished tree must descend)
              [] ctxt = "inbuiltin" -> Cmp("eq", Call(Id0("concat"), <<Call(Id0("tolower"), <<c>>), StrL(<<120>>)>>), StrL(<<121>>))

Init == /\ f \in Names /\ n \in 0..5 /\ style \in Styles /\ ctxt \in {"alone", "cmp", "arg", "list", "lam", "inbuiltin"}
        /\ (style \in {"named", "namedrev"} => n >= 1)
Next == UNCHANGED <<f, n, style, ctxt>>

Expected == ParseTokens(Pr(InCtx(TheCall), "min"))
\* the table itself decides, independently of the parser machine (model-level cross-check)
TableSays == LET c == CallCheck(f, n) IN IF c[1] = "ok" THEN <<"ok", InCtx(TheCall)>> ELSE c
MachineAgreesWithTable == Expected = TableSays
\* optional whitespace wherever the grammar allows it does not change the outcome
BwsSameOutcome == ParseTokens(Pr(InCtx(TheCall), "bws")) = Expected

Export == PrintT(ToJson([k |-> "case", fn |-> f, n |-> n, style |-> style, ctxt |-> ctxt,
                         text |-> Spell(Pr(InCtx(TheCall), "min"), " "), bws |-> Spell(Pr(InCtx(TheCall), "bws"), " "),
                         expected |-> Expected]))
=============================================================================
