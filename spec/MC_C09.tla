------------------------------ MODULE MC_C09 ------------------------------
(***************************************************************************)
(* C09 case generator: the typed filters of MC_Sem (all profiles incl.     *)
(* "fns": date / math / string functions composed arbitrarily), exported   *)
(* with what the compositional oracle of Trace_SqlRead needs translated:   *)
(*   leaves - every field / literal / list leaf on its own                 *)
(*   skels  - every function call with its arguments replaced by fresh     *)
(*            fields zz1, zz2, ... (list-typed arguments and a literal     *)
(*            pattern argument of contains/startswith/endswith are kept:   *)
(*            they legitimately select or merge into the template)         *)
(***************************************************************************)
EXTENDS MC_Sem

PatternFns == {"contains", "startswith", "endswith"}
KeepArg(f, i, a) == a[1] = "List" \/ (f \in PatternFns /\ i = 2 /\ a[1] = "Lit")
ZName(i) == CASE i = 1 -> "zz1" [] i = 2 -> "zz2" [] OTHER -> "zz3"
Skel(c) == Call(c[2], [i \in 1..Len(c[3]) |-> IF KeepArg(c[2][3], i, c[3][i]) THEN c[3][i] ELSE Id0(ZName(i))])
RECURSIVE LeavesOf(_), CallsOf(_)
LeavesOf(x) == CASE x[1] \in {"Id", "Lit", "List"} -> {x}
                 [] x[1] = "Call" -> UNION { IF KeepArg(x[2][3], i, x[3][i]) THEN {} ELSE LeavesOf(x[3][i]) : i \in 1..Len(x[3]) }
                 [] OTHER -> LET ks == Sub(x) IN UNION { LeavesOf(ks[i]) : i \in 1..Len(ks) }
CallsOf(x) == CASE x[1] \in {"Id", "Lit", "List"} -> {}
                [] x[1] = "Call" -> {Skel(x)} \cup UNION { IF KeepArg(x[2][3], i, x[3][i]) THEN {} ELSE CallsOf(x[3][i]) : i \in 1..Len(x[3]) }
                [] OTHER -> LET ks == Sub(x) IN UNION { CallsOf(ks[i]) : i \in 1..Len(ks) }
RECURSIVE CountFields(_)
CountFields(x) == IF x[1] = "Id" THEN 1
                  ELSE IF x[1] = "Call" THEN LET F[i \in 0..Len(x[3])] == IF i = 0 THEN 0 ELSE F[i - 1] + CountFields(x[3][i]) IN F[Len(x[3])]
                  ELSE LET ks == Sub(x)  F[i \in 0..Len(ks)] == IF i = 0 THEN 0 ELSE F[i - 1] + CountFields(ks[i]) IN F[Len(ks)]
T9(x) == TextOf(Pr(x, "min"), SP)
Export09 == PrintT(ToJson(IF Complete
              THEN [k |-> "case", tree |-> t, nops |-> n, text |-> T9(t), nfields |-> CountFields(t),
                    leaves |-> { <<x, T9(x)>> : x \in LeavesOf(t) }, skels |-> { <<x, T9(x)>> : x \in CallsOf(t) }]
              ELSE [k |-> "partial"]))
=============================================================================
