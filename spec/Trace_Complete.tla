--------------------------- MODULE Trace_Complete ---------------------------
(***************************************************************************)
(* C12: validation of what each backend did with a filter.                 *)
(* Cases (JSON, env TRACE_FILE): records                                   *)
(*   [id, backend, nav, geo, expr (the output is a bare SQL expression),   *)
(*    outcome |-> "ok" | "refused" | "notimpl" | "importerror" | "crash",  *)
(*    out (code points of the emitted / compiled SQL), params (sequence of *)
(*    code-point strings handed to the driver), fields (names that must be *)
(*    represented), needles (per literal: alternative spellings, one of    *)
(*    which must occur in a string/number token or in a parameter)]        *)
(* Verdict: ok | forbidden-outcome | placeholder | not-wellformed |        *)
(*          missing-field | missing-literal                                *)
(***************************************************************************)
EXTENDS SqlRead, Json, IOUtils, TLC
Cases == JsonDeserialize(IOEnv.TRACE_FILE)
VARIABLES lo, hi
Init == lo = 1 /\ hi = Len(Cases)
Split == /\ lo < hi
         /\ LET mid == (lo + hi) \div 2 IN \/ (lo' = lo /\ hi' = mid) \/ (lo' = mid + 1 /\ hi' = hi)
Next == Split

\* the contract: which outcomes a backend may produce for a well-typed filter
Allowed(c) == \/ c.outcome \in {"ok", "refused"}
              \/ (c.outcome = "notimpl" /\ c.backend = "sa-core" /\ c.nav)        \* documented: no paths / lambdas in Core
              \/ (c.outcome = "importerror" /\ c.backend = "django" /\ c.geo)     \* GeoDjango not loadable in this sandbox

SubAt(p, x, i) == i + Len(p) - 1 <= Len(x) /\ SubSeq(x, i, i + Len(p) - 1) = p
Within(p, x) == \E i \in 1..(Len(x) + 1) : SubAt(p, x, i)
Texts(toks, kinds) == { toks[i][2] : i \in { j \in 1..Len(toks) : toks[j][1] \in kinds } }
FieldPresent(toks, name) == \/ name \in Texts(toks, {"QID"})
                            \/ UpperSeq(name) \in Texts(toks, {"WORD"})
                            \/ \E q \in Texts(toks, {"QID"}) : LowerSeq(q) = LowerSeq(name)
NeedlePresent(c, toks, alts) ==
  \E k \in 1..Len(alts) :
       \/ \E x \in Texts(toks, {"STR", "NUM", "WORD", "QID"}) : Within(UpperSeq(alts[k]), UpperSeq(x))
       \/ \E j \in 1..Len(c.params) : Within(UpperSeq(alts[k]), UpperSeq(c.params[j]))
VerdictOf(c) ==
  IF ~Allowed(c) THEN "forbidden-outcome"
  ELSE IF c.outcome # "ok" THEN "ok"
  ELSE LET l == SqlLexRun(c.out)  toks == l.toks IN
       IF l.mode # "N" \/ Hostile(toks) THEN "not-wellformed"
       ELSE IF \E i \in 1..Len(toks) : toks[i] = <<"WORD", StrCps("NONE")>> THEN "placeholder"
       ELSE IF c.expr /\ ReadSql(toks)[1] # "ok" THEN "not-wellformed"
       ELSE IF \E i \in 1..Len(c.fields) : ~FieldPresent(toks, c.fields[i]) THEN "missing-field"
       ELSE IF \E i \in 1..Len(c.needles) : ~NeedlePresent(c, toks, c.needles[i]) THEN "missing-literal"
       ELSE "ok"
Verdict == (lo = hi /\ Len(Cases) > 0) =>
              PrintT(ToJson([k |-> "verdict", id |-> Cases[lo].id, v |-> VerdictOf(Cases[lo])]))
=============================================================================
