------------------------------ MODULE Visitor ------------------------------
(***************************************************************************)
(* The traversal contract of NodeVisitor / NodeTransformer.                *)
(*                                                                         *)
(* Every dataclass field that holds a node is a child, in field order;     *)
(* list fields contribute their node items in order; operator tokens       *)
(* (Add, Eq, And, Not, Any, ...) are nodes of their own.  visit(node)      *)
(* dispatches to visit_<ClassName> when the visitor defines it, otherwise  *)
(* to generic_visit, which visits the children.  A handler that does not   *)
(* itself descend prunes the traversal below its node.                     *)
(*                                                                         *)
(* The machine: `work` is the stack of items still to visit, `log` the     *)
(* dispatch sequence <<class, handler>>.                                   *)
(***************************************************************************)
EXTENDS Ast

Tok(c) == <<"Tok", c>>
TokClass == [ add |-> "Add", sub |-> "Sub", mul |-> "Mult", div |-> "Div", mod |-> "Mod",
              eq |-> "Eq", ne |-> "NotEq", lt |-> "Lt", le |-> "LtE", gt |-> "Gt", ge |-> "GtE", in |-> "In",
              and |-> "And", or |-> "Or", not |-> "Not", neg |-> "USub", any |-> "Any", all |-> "All" ]
ClassOf(t) ==
  CASE t[1] = "Tok"  -> t[2]
    [] t[1] = "Id"   -> "Identifier"
    [] t[1] = "Attr" -> "Attribute"
    [] t[1] = "Lit"  -> t[2]
    [] t[1] = "List" -> "List"
    [] t[1] = "Bin"  -> "BinOp"
    [] t[1] = "Cmp"  -> "Compare"
    [] t[1] = "Bool" -> "BoolOp"
    [] t[1] = "Un"   -> "UnaryOp"
    [] t[1] = "Call" -> "Call"
    [] t[1] = "Named" -> "NamedParam"
    [] t[1] = "Lam"  -> "Lambda"
    [] t[1] = "Coll" -> "CollectionLambda"
\* children in dataclass field order, operator tokens included
Fields(t) ==
  CASE t[1] \in {"Tok", "Id", "Lit"} -> <<>>
    [] t[1] = "Attr" -> <<t[2]>>
    [] t[1] = "List" -> t[2]
    [] t[1] \in {"Bin", "Cmp", "Bool"} -> <<Tok(TokClass[t[2]]), t[3], t[4]>>
    [] t[1] = "Un"   -> <<Tok(TokClass[t[2]]), t[3]>>
    [] t[1] = "Call" -> <<t[2]>> \o t[3]
    [] t[1] = "Named" -> <<t[2], t[3]>>
    [] t[1] = "Lam"  -> <<t[2], t[3]>>
    [] t[1] = "Coll" -> <<t[2], Tok(TokClass[t[3]])>> \o (IF t[4] = None THEN <<>> ELSE <<t[4]>>)

Reverse(s) == [i \in 1..Len(s) |-> s[Len(s) + 1 - i]]
Handler(node, over) == IF ClassOf(node) \in over THEN "visit_" \o ClassOf(node) ELSE "generic_visit"
\* one dispatch step of the machine: <<work', entry>>
DispatchStep(work, over) ==
  LET node == work[Len(work)]  rest == SubSeq(work, 1, Len(work) - 1) IN
  << IF ClassOf(node) \in over THEN rest ELSE rest \o Reverse(Fields(node)),
     <<ClassOf(node), Handler(node, over)>> >>

RECURSIVE RunVisit(_, _, _)
RunVisit(work, over, log) == IF work = <<>> THEN log
                             ELSE LET s == DispatchStep(work, over) IN RunVisit(s[1], over, Append(log, s[2]))
VisitLog(t, over) == RunVisit(<<t>>, over, <<>>)

\* number of nodes incl. operator tokens
RECURSIVE FullSize(_)
FullSize(t) == LET ks == Fields(t)
                   F[i \in 0..Len(ks)] == IF i = 0 THEN 0 ELSE F[i - 1] + FullSize(ks[i])
               IN 1 + F[Len(ks)]

\* ---- transformers
Marker == <<"Id", <<>>, "MARK">>
SwapTok == [ Add |-> "sub", Sub |-> "add", Mult |-> "div", Div |-> "mul", Mod |-> "mul",
             Eq |-> "ne", NotEq |-> "eq", Lt |-> "ge", LtE |-> "gt", Gt |-> "le", GtE |-> "lt", In |-> "in",
             And |-> "or", Or |-> "and", Not |-> "not", USub |-> "neg", Any |-> "all", All |-> "any" ]
\* result of a transformer whose only handler is visit_<k>: nodes of class k replaced (by Marker, or the swapped
\* operator token), nothing below them visited, everything else rebuilt unchanged
RECURSIVE ReplaceKind(_, _)
OpOf(t, k) == IF TokClass[t[2]] = k THEN SwapTok[k] ELSE t[2]
ReplaceKind(t, k) ==
  IF ClassOf(t) = k THEN Marker
  ELSE CASE t[1] \in {"Id", "Lit", "None"} -> t
         [] t[1] \in {"Bin", "Cmp", "Bool"} -> BinNode(OpOf(t, k), ReplaceKind(t[3], k), ReplaceKind(t[4], k))
         [] t[1] = "Un" -> Un(OpOf(t, k), ReplaceKind(t[3], k))
         [] t[1] = "Coll" -> Coll(ReplaceKind(t[2], k), IF TokClass[t[3]] = k THEN SwapTok[k] ELSE t[3],
                                  IF t[4] = None THEN None ELSE ReplaceKind(t[4], k))
         [] OTHER -> LET ks == Sub(t) IN Rebuild(t, [i \in 1..Len(ks) |-> ReplaceKind(ks[i], k)])
=============================================================================
