-------------------------------- MODULE Rel --------------------------------
(***************************************************************************)
(* Meaning of $filter expressions over a small relational database:        *)
(* to-one navigation (a/b/c), collections with any() / any(x: p) /         *)
(* all(x: p), nested lambdas.                                              *)
(*                                                                         *)
(* Schema (fixed):  Org <- Author <- Post <-> Author (editors, m2m),        *)
(*                  Post <- Comment.                                       *)
(* A database is a record  [Org, Author, Post, Comment : sets of rows,     *)
(* editors : set of <<post id, author id>>]; rows are records with an `id`,*)
(* scalar columns and nullable foreign keys (NULL or an id).               *)
(*                                                                         *)
(* Navigation through a NULL foreign key yields NULL ("a missing related   *)
(* row behaves as null"); the members of a collection reached through a    *)
(* NULL key are the empty set; any() = non-empty, any(x: p) = some member  *)
(* makes p TRUE, all(x: p) = no member makes p anything but TRUE ... under *)
(* Kleene logic: all = NOT EXISTS member with (p is not TRUE) is what SQL  *)
(* engines compute for NOT EXISTS(... AND NOT p); lambda bodies are drawn  *)
(* over non-null child columns so both readings coincide.                  *)
(***************************************************************************)
EXTENDS Sem

Models == {"Org", "Author", "Post", "Comment", "PostInfo", "AuthorInfo"}
\* to-one relations: model -> name -> <<target model, fk column>>
\* (Post.info and Author.info deliberately share their name and point to different tables)
\* (Author.home is a second, NOT NULL key to Org: a mandatory hop behind the nullable hop Post.author)
\* (Author.boss is self-referential: boss/boss/boss/name passes the same model three times)
ToOne == [ Author |-> [ org |-> <<"Org", "org">>, info |-> <<"AuthorInfo", "info">>, home |-> <<"Org", "home">>, boss |-> <<"Author", "boss">> ],
           Post |-> [ author |-> <<"Author", "author">>, info |-> <<"PostInfo", "info">> ],
           PostInfo |-> [ none_ |-> <<"PostInfo", "none_">> ],
           AuthorInfo |-> [ none_ |-> <<"AuthorInfo", "none_">> ],
           Comment |-> [ post |-> <<"Post", "post">> ],
           \* Org.lead leads back to Author: a path can return to a model it has already passed (or started from)
           Org |-> [ lead |-> <<"Author", "lead">> ] ]
\* collections: model -> name -> <<kind, target model, fk column on target / m2m side>>
ToMany == [ Org |-> [ authors |-> <<"fk", "Author", "org">> ],
            Author |-> [ posts |-> <<"fk", "Post", "author">>, edited |-> <<"m2m", "Post", "author">> ],
            \* Post.authors (the editors, many-to-many) deliberately shares its name with Org.authors
            Post |-> [ comments |-> <<"fk", "Comment", "post">>, authors |-> <<"m2m", "Author", "post">> ],
            Comment |-> [ none_ |-> <<"fk", "Comment", "none_">> ],
            PostInfo |-> [ none_ |-> <<"fk", "PostInfo", "none_">> ],
            AuthorInfo |-> [ none_ |-> <<"fk", "AuthorInfo", "none_">> ] ]

RowOf(db, model, id) == CHOOSE r \in db[model] : r.id = id

\* members of collection `name` of row r (of model m)
Members(db, m, r, name) ==
  LET c == ToMany[m][name] IN
  IF c[1] = "fk" THEN { x \in db[c[2]] : x[c[3]] = IV(r.id) }
  ELSE IF c[3] = "post" THEN { x \in db["Author"] : <<r.id, x.id>> \in db.editors }      \* Post.authors
       ELSE { x \in db["Post"] : <<x.id, r.id>> \in db.editors }                          \* Author.edited

\* path segments of a path tree, root first: <<root id tree, seg1, seg2, ...>>
RECURSIVE PathSegs(_)
PathSegs(p) == IF p[1] = "Attr" THEN Append(PathSegs(p[2]), p[3]) ELSE <<p>>

\* follow to-one relations.  A position is <<model, present, row>>; present = FALSE after navigating through
\* a NULL key (the row component is then meaningless)
RECURSIVE Follow(_, _, _)
Follow(db, cur, segs) ==
  IF segs = <<>> THEN cur
  ELSE LET m == cur[1]  r == cur[3]  rel == ToOne[m][segs[1]] IN
       IF ~cur[2] \/ r[rel[2]] = NULL THEN Follow(db, <<rel[1], FALSE, r>>, Tail(segs))
       ELSE Follow(db, <<rel[1], TRUE, RowOf(db, rel[1], r[rel[2]][2])>>, Tail(segs))

\* env: variable name -> <<model, row>> ; "" is the root row
StartOf(env, root) == IF root[3] \in DOMAIN env THEN << <<env[root[3]][1], TRUE, env[root[3]][2]>>, <<>> >>
                      ELSE << <<env[""][1], TRUE, env[""][2]>>, <<root[3]>> >>

RECURSIVE EvalR(_, _, _)
\* value of a path ending in a scalar column
PathValue(db, env, p) ==
  LET segs == PathSegs(p)
      st == StartOf(env, segs[1])
      all == st[2] \o Tail(segs)
      tgt == Follow(db, st[1], SubSeq(all, 1, Len(all) - 1))
  IN IF ~tgt[2] THEN NULL ELSE IF all[Len(all)] = "id" THEN IV(tgt[3].id) ELSE tgt[3][all[Len(all)]]
\* the rows of a collection path (owner path ending in a collection name)
CollMembers(db, env, p) ==
  LET segs == PathSegs(p)
      st == StartOf(env, segs[1])
      all == st[2] \o Tail(segs)
      tgt == Follow(db, st[1], SubSeq(all, 1, Len(all) - 1))
      name == all[Len(all)]
  IN IF ~tgt[2] THEN <<ToMany[tgt[1]][name][2], {}>>
     ELSE <<ToMany[tgt[1]][name][2], Members(db, tgt[1], tgt[3], name)>>

EvalR(db, env, t) ==
  CASE t[1] \in {"Id", "Attr"} -> PathValue(db, env, t)
    [] t[1] = "Lit"  -> LitVal(t[2], t[3])
    [] t[1] = "Bin"  -> Arith(t[2], EvalR(db, env, t[3]), EvalR(db, env, t[4]))
    [] t[1] = "Un"   -> IF t[2] = "not" THEN Not3(EvalR(db, env, t[3]))
                        ELSE LET a == EvalR(db, env, t[3]) IN IF a = NULL THEN NULL ELSE IV(-a[2])
    [] t[1] = "Bool" -> IF t[2] = "and" THEN And3(EvalR(db, env, t[3]), EvalR(db, env, t[4]))
                        ELSE Or3(EvalR(db, env, t[3]), EvalR(db, env, t[4]))
    [] t[1] = "Cmp"  ->
         IF t[2] = "in" THEN
            LET a == EvalR(db, env, t[3])
                F[i \in 0..Len(t[4][2])] == IF i = 0 THEN FALSEV ELSE Or3(F[i - 1], Compare("eq", a, EvalR(db, env, t[4][2][i])))
            IN F[Len(t[4][2])]
         ELSE IF t[2] \in {"eq", "ne"} /\ (IsNullLit(t[3]) \/ IsNullLit(t[4])) THEN
            LET x == IF IsNullLit(t[4]) THEN EvalR(db, env, t[3]) ELSE EvalR(db, env, t[4]) IN
            BV((x = NULL) = (t[2] = "eq"))
         ELSE Compare(t[2], EvalR(db, env, t[3]), EvalR(db, env, t[4]))
    [] t[1] = "Call" -> ApplyFn(t[2][3], [i \in 1..Len(t[3]) |-> EvalR(db, env, t[3][i])], Len(t[3]) >= 2 /\ t[3][2][1] = "Lit")
    [] t[1] = "Coll" ->
         LET ms == CollMembers(db, env, t[2]) IN
         IF t[4] = None THEN BV(ms[2] # {})
         ELSE LET v == t[4][2][3]
                  body(x) == EvalR(db, [k \in DOMAIN env \cup {v} |-> IF k = v THEN <<ms[1], x>> ELSE env[k]], t[4][3])
              IN IF t[3] = "any" THEN BV(\E x \in ms[2] : body(x) = TRUEV)
                 ELSE BV(\A x \in ms[2] : body(x) = TRUEV)

SelectedParents(db, model, t) == { r.id : r \in { x \in db[model] : EvalR(db, [k \in {""} |-> <<model, x>>], t) = TRUEV } }
=============================================================================
