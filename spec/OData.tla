------------------------------ MODULE OData ------------------------------
(***************************************************************************)
(* The OData $filter expression language at token level:                   *)
(*   - operator precedence / associativity (OData 4.01 URL conv. 5.1.1.14) *)
(*   - the built-in function table (name |-> <<min, max>> argument count)  *)
(*   - reference printers  PrintMin / PrintFull / PrintBws  (tree -> tokens)*)
(*   - the reference parser: a deterministic shift-reduce machine          *)
(*     (tokens -> tree | error class), one Step per token decision         *)
(*   - Spell: tokens -> text pieces                                        *)
(* Tables are transcribed from the OData standard and the library's        *)
(* documentation, not from grammar.py.                                     *)
(*                                                                         *)
(* Tokens:  <<"id", ns, name>>  <<"lit", kind, val>>  <<"op", o>>          *)
(*          <<"not">> <<"neg">> <<"any">> <<"all">>  <<"ws">>              *)
(*          <<"(">> <<")">> <<",">> <<"/">> <<":">> <<"=">>                *)
(***************************************************************************)
EXTENDS Ast, Cps, TLC
CONSTANT CpsMode      \* FALSE: names are TLA+ strings; TRUE: names are code-point sequences

\* ---------------------------------------------------------------- tables
BinPrec == [ or |-> 1, and |-> 2, eq |-> 3, ne |-> 3,
             lt |-> 4, le |-> 4, gt |-> 4, ge |-> 4,
             add |-> 5, sub |-> 5, mul |-> 6, div |-> 6, mod |-> 6,
             in |-> 8 ]
BinOps  == DOMAIN BinPrec
PrePrec == 7           \* not, unary minus: tighter than every binary operator except `in`
AtomPrec == 100

\* OData built-in functions (un-namespaced or geo.): full name |-> <<min, max>>
Functions ==
  [ concat |-> <<2, 2>>, contains |-> <<2, 2>>, endswith |-> <<2, 2>>, indexof |-> <<2, 2>>,
    length |-> <<1, 1>>, startswith |-> <<2, 2>>, substring |-> <<2, 3>>,
    matchesPattern |-> <<2, 2>>, tolower |-> <<1, 1>>, toupper |-> <<1, 1>>, trim |-> <<1, 1>>,
    year |-> <<1, 1>>, month |-> <<1, 1>>, day |-> <<1, 1>>, hour |-> <<1, 1>>,
    minute |-> <<1, 1>>, second |-> <<1, 1>>, fractionalseconds |-> <<1, 1>>,
    totalseconds |-> <<1, 1>>, date |-> <<1, 1>>, time |-> <<1, 1>>,
    totaloffsetminutes |-> <<1, 1>>, mindatetime |-> <<0, 0>>, maxdatetime |-> <<0, 0>>,
    now |-> <<0, 0>>, round |-> <<1, 1>>, floor |-> <<1, 1>>, ceiling |-> <<1, 1>>,
    hassubset |-> <<2, 2>>, hassubsequence |-> <<2, 2>> ]
GeoFunctions == [ distance |-> <<2, 2>>, length |-> <<1, 1>>, intersects |-> <<2, 2>> ]

\* Names are TLA+ strings in generator trees and code-point sequences in trees read from text
\* (CpsMode); the two never meet in one comparison, the switch is a model constant.
KeyOf(str) == IF CpsMode THEN StrCps(str) ELSE str
Dot == KeyOf(".")
FnTable  == [k \in {KeyOf(f) : f \in DOMAIN Functions} |-> Functions[CHOOSE f \in DOMAIN Functions : KeyOf(f) = k]]
GeoTable == [k \in {KeyOf(f) : f \in DOMAIN GeoFunctions} |-> GeoFunctions[CHOOSE f \in DOMAIN GeoFunctions : KeyOf(f) = k]]
GeoKey == KeyOf("geo")

\* outcome of the function table for a call  id(args) :  <<"ok">> | <<"unknown", fullname>> | <<"argc", fullname, min, max, n>>
FullName(id) == IF Len(id[2]) = 0 THEN id[3] ELSE
                LET F[i \in 1..Len(id[2])] == IF i = 1 THEN id[2][1] ELSE F[i - 1] \o Dot \o id[2][i]
                IN F[Len(id[2])] \o Dot \o id[3]
CallCheck(id, n) ==
  IF Len(id[2]) = 0 THEN
       IF id[3] \in DOMAIN FnTable
       THEN (IF n >= FnTable[id[3]][1] /\ n <= FnTable[id[3]][2] THEN <<"ok">>
             ELSE <<"argc", id[3], FnTable[id[3]][1], FnTable[id[3]][2], n>>)
       ELSE <<"unknown", id[3]>>
  ELSE IF Len(id[2]) = 1 /\ id[2][1] = GeoKey THEN
       IF id[3] \in DOMAIN GeoTable
       THEN (IF n >= GeoTable[id[3]][1] /\ n <= GeoTable[id[3]][2] THEN <<"ok">>
             ELSE <<"argc", FullName(id), GeoTable[id[3]][1], GeoTable[id[3]][2], n>>)
       ELSE <<"unknown", FullName(id)>>
  ELSE <<"ok">>

PrecOf(t) == IF IsBinary(t) THEN BinPrec[t[2]] ELSE IF t[1] = "Un" THEN PrePrec ELSE AtomPrec

\* ---------------------------------------------------------------- printers
T(x) == <<x>>
WS == <<"ws">>

(* mode: "min"  - parenthesise only where precedence/associativity demands it
         "full" - parenthesise every operator-headed operand
         "bws"  - as "min", with optional whitespace at every position the grammar allows it
         "fullbws" - "full" with optional whitespace, and bracketed sub-expressions
                     (arguments, list items, lambda bodies) parenthesised too            *)
IsFull(m) == m \in {"full", "fullbws"}
IsBws(m)  == m \in {"bws", "fullbws"}
B(m) == IF IsBws(m) THEN <<WS>> ELSE <<>>
OpHeaded(t) == IsBinary(t) \/ t[1] = "Un"

RECURSIVE Pr(_, _), PrSeq(_, _)
Paren(s, m) == <<T("(")>> \o B(m) \o s \o B(m) \o <<T(")")>>
Wrap(t, need, m) == IF need \/ (IsFull(m) /\ OpHeaded(t)) THEN Paren(Pr(t, m), m) ELSE Pr(t, m)
\* a sub-expression in a bracketed position (argument, list item, lambda body)
Inner(t, m) == IF m = "fullbws" /\ t[1] # "Named" THEN Paren(Pr(t, m), m) ELSE Pr(t, m)
PrSeq(xs, m) == IF Len(xs) = 0 THEN <<>>
                ELSE IF Len(xs) = 1 THEN Inner(xs[1], m)
                ELSE Inner(xs[1], m) \o B(m) \o <<T(",")>> \o B(m) \o PrSeq(Tail(xs), m)
Pr(t, m) ==
  CASE t[1] = "Id"   -> << <<"id", t[2], t[3]>> >>
    [] t[1] = "Lit"  -> << <<"lit", t[2], t[3]>> >>
    [] t[1] = "Attr" -> Pr(t[2], m) \o <<T("/"), <<"id", <<>>, t[3]>> >>
    [] t[1] = "List" -> IF Len(t[2]) = 1
                        THEN <<T("(")>> \o B(m) \o Inner(t[2][1], m) \o B(m) \o <<T(",")>> \o B(m) \o <<T(")")>>
                        ELSE <<T("(")>> \o B(m) \o PrSeq(t[2], m) \o B(m) \o <<T(")")>>
    [] t[1] = "Call" -> IF Len(t[3]) = 0 THEN << <<"id", t[2][2], t[2][3]>>, T("("), T(")") >>
                        ELSE << <<"id", t[2][2], t[2][3]>>, T("(") >> \o B(m) \o PrSeq(t[3], m) \o B(m) \o <<T(")")>>
    [] t[1] = "Named" -> << <<"id", t[2][2], t[2][3]>>, T("=") >> \o Pr(t[3], m)
    [] t[1] = "Coll" -> Pr(t[2], m) \o <<T("/"), T(t[3]), T("(")>> \o B(m)
                        \o (IF t[4] = None THEN <<>>
                            ELSE << <<"id", t[4][2][2], t[4][2][3]>> >> \o B(m) \o <<T(":")>> \o B(m)
                                 \o Inner(t[4][3], m) \o B(m))
                        \o <<T(")")>>
    [] t[1] = "Un"   -> (IF t[2] = "neg" THEN <<T("neg"), WS>> ELSE <<T("not")>>)
                        \o Wrap(t[3], PrecOf(t[3]) < PrePrec, m)
    [] IsBinary(t)   -> LET p == BinPrec[t[2]] IN
                        Wrap(t[3], PrecOf(t[3]) < p, m) \o << <<"op", t[2]>> >>
                        \o (IF t[2] = "in" THEN Pr(t[4], m) ELSE Wrap(t[4], PrecOf(t[4]) <= p, m))

PrintMin(t)  == Pr(t, "min")
PrintFull(t) == Pr(t, "full")

\* ---------------------------------------------------------------- parser machine
(* State: pos, vals (operand stack), ops (frame stack), mode, status, needList.
   Frames:  <<"bin", o>>  <<"pre", o>>  <<"grp", commas, mustList>>
            <<"call", id, commas, style>>   style \in {"unk", "pos", "named"}
            <<"named", id>>   <<"lam", q, var>>                                    *)
EOF == <<"eof">>
Top(s) == s[Len(s)]
Pop(s) == SubSeq(s, 1, Len(s) - 1)
PopN(s, n) == SubSeq(s, 1, Len(s) - n)
LastN(s, n) == SubSeq(s, Len(s) - n + 1, Len(s))

\* --- optional whitespace: legal exactly where the grammar has BWS
Tk(inp, i) == IF i >= 1 /\ i <= Len(inp) THEN inp[i] ELSE EOF
WsLegal(inp, i) ==
  LET prev == Tk(inp, i - 1)  next == Tk(inp, i + 1) IN
  /\ \/ prev[1] \in {"(", ",", ":", "neg"}
     \/ next[1] \in {")", ",", ":"}
  /\ ~(prev[1] = "(" /\ next[1] = ")" /\ Tk(inp, i - 2)[1] = "id")   \* f( ) has no BWS
  /\ prev[1] # "ws"
WsAllLegal(inp) == \A i \in 1..Len(inp) : inp[i][1] = "ws" => WsLegal(inp, i)
StripWs(inp) == SelectSeq(inp, LAMBDA x : x[1] # "ws")

PInit == [pos |-> 1, vals |-> <<>>, ops |-> <<>>, mode |-> "operand", status |-> "run",
          needList |-> FALSE, err |-> <<>>, errAt |-> 0]
\* a syntax error; errAt = index of the offending token (the first token that cannot continue a viable prefix)
ErrAt(st, k) == [st EXCEPT !.status = "syntax", !.errAt = st.pos + k]
Err(st) == ErrAt(st, 0)
\* tokens may carry a trailing mark "w": a whitespace token stood before them (only module Diag marks tokens)
BaseLen(k) == IF k \in {"id", "lit"} THEN 3 ELSE IF k = "op" THEN 2 ELSE 1
HasWsMark(tok) == Len(tok) > BaseLen(tok[1])
\* what may follow a function call anywhere in the grammar (the parser reduces a call - and checks the function
\* table - only once it has seen such a token): a binary operator, ")", ",", whitespace, or the end of the input
FollowKinds == {"op", ")", ",", "eof"}
FErr(st, e) == [st EXCEPT !.status = "function", !.err = e]
Adv(st, n) == [st EXCEPT !.pos = @ + n]
IsOpFrame(f) == f[1] \in {"bin", "pre"}
FramePrec(f) == IF f[1] = "bin" THEN BinPrec[f[2]] ELSE PrePrec

ReduceOne(st) == LET f == Top(st.ops) IN
   IF f[1] = "bin"
   THEN [st EXCEPT !.ops = Pop(@),
                   !.vals = PopN(@, 2) \o <<BinNode(f[2], st.vals[Len(st.vals) - 1], Top(st.vals))>>]
   ELSE [st EXCEPT !.ops = Pop(@), !.vals = Pop(@) \o <<Un(f[2], Top(st.vals))>>]
RECURSIVE ReduceWhile(_, _)
\* reduce while the top frame is an operator binding at least as tightly as p (binary: left assoc)
ReduceWhile(st, p) == IF Len(st.ops) > 0 /\ IsOpFrame(Top(st.ops)) /\ FramePrec(Top(st.ops)) >= p
                      THEN ReduceWhile(ReduceOne(st), p) ELSE st
\* a pending  name=  frame is closed by , or )
ReduceNamed(st) == IF Len(st.ops) > 0 /\ Top(st.ops)[1] = "named"
                   THEN [st EXCEPT !.ops = Pop(@), !.vals = Pop(@) \o <<Named(Top(st.ops)[2], Top(st.vals))>>]
                   ELSE st
CloseCall(st, id, n, inp) ==
   LET chk == CallCheck(id, n)
       nx == IF st.pos + 1 <= Len(inp) THEN inp[st.pos + 1] ELSE <<"eof">> IN
   IF nx[1] = "poison" /\ ~HasWsMark(nx) THEN [st EXCEPT !.status = "token"]     \* the next token cannot be lexed
   ELSE IF nx[1] \notin FollowKinds /\ ~HasWsMark(nx) THEN ErrAt(st, 1)          \* not a lookahead of the call reduction
   ELSE IF chk[1] = "ok"
   THEN Adv([st EXCEPT !.ops = Pop(@), !.vals = PopN(@, n) \o <<Call(id, LastN(st.vals, n))>>, !.mode = "operator"], 1)
   ELSE FErr(st, chk)

Step(st, inp) ==
  LET tok == Tk(inp, st.pos)  nxt == Tk(inp, st.pos + 1)  nx2 == Tk(inp, st.pos + 2) IN
  CASE st.mode = "operand" ->
         ( CASE st.needList /\ tok[1] # "(" -> Err(st)
             [] tok[1] = "id" /\ nxt[1] = "(" /\ ~st.needList ->
                  Adv([st EXCEPT !.ops = Append(@, <<"call", <<"Id", tok[2], tok[3]>>, 0, "unk">>), !.mode = "callstart"], 2)
             [] tok[1] = "id" /\ nxt[1] # "(" /\ ~st.needList ->
                  Adv([st EXCEPT !.vals = Append(@, <<"Id", tok[2], tok[3]>>), !.mode = "path"], 1)
             [] tok[1] = "lit" /\ ~st.needList ->
                  Adv([st EXCEPT !.vals = Append(@, <<"Lit", tok[2], tok[3]>>), !.mode = "operator"], 1)
             [] tok[1] \in {"not", "neg"} /\ ~st.needList -> Adv([st EXCEPT !.ops = Append(@, <<"pre", tok[1]>>)], 1)
             [] tok[1] = "(" -> Adv([st EXCEPT !.ops = Append(@, <<"grp", 0, st.needList>>), !.needList = FALSE], 1)
             [] OTHER -> Err(st) )
    [] st.mode = "callstart" ->                       \* right after  f(
         IF tok[1] = ")" THEN CloseCall(st, Top(st.ops)[2], 0, inp)
         ELSE IF tok[1] = "id" /\ nxt[1] = "="
              THEN Adv([st EXCEPT !.ops = Pop(@) \o << <<"call", Top(st.ops)[2], 0, "named">>, <<"named", <<"Id", tok[2], tok[3]>> >> >>,
                                  !.mode = "operand"], 2)
              ELSE [st EXCEPT !.mode = "operand"]
    [] st.mode = "nameditem" ->                       \* after a comma between named parameters
         IF tok[1] = "id" /\ nxt[1] = "="
         THEN Adv([st EXCEPT !.ops = Append(@, <<"named", <<"Id", tok[2], tok[3]>> >>), !.mode = "operand"], 2)
         ELSE IF tok[1] = "id" THEN ErrAt(st, 1) ELSE Err(st)
    [] st.mode = "path" ->                            \* just shifted a path segment
         IF tok[1] = "/" THEN
            IF nxt[1] = "id" THEN Adv([st EXCEPT !.vals = Pop(@) \o <<Attr(Top(st.vals), nxt[3])>>], 2)
            ELSE IF nxt[1] \in {"any", "all"} /\ nx2[1] = "(" THEN
               LET a == Tk(inp, st.pos + 3)  b == Tk(inp, st.pos + 4) IN
               IF a[1] = ")" THEN
                    IF nxt[1] = "any"
                    THEN Adv([st EXCEPT !.vals = Pop(@) \o <<Coll(Top(st.vals), "any", None)>>, !.mode = "operator"], 4)
                    ELSE ErrAt(st, 3)
               ELSE IF a[1] = "id" /\ b[1] = ":"
                    THEN Adv([st EXCEPT !.ops = Append(@, <<"lam", nxt[1], <<"Id", a[2], a[3]>> >>), !.mode = "operand"], 5)
                    ELSE IF a[1] = "id" THEN ErrAt(st, 4) ELSE ErrAt(st, 3)
            ELSE IF nxt[1] \in {"any", "all"} THEN ErrAt(st, 2) ELSE ErrAt(st, 1)
         ELSE [st EXCEPT !.mode = "operator"]
    [] st.mode = "items" ->                           \* after a comma in a list / positional call
         LET f == Top(st.ops) IN
         IF tok[1] = ")" THEN
            IF f[1] = "grp" /\ f[2] = 1
            THEN Adv([st EXCEPT !.ops = Pop(@), !.vals = Pop(@) \o <<Lst(<<Top(st.vals)>>)>>, !.mode = "operator"], 1)
            ELSE IF f[1] = "call" /\ f[3] = 1 THEN CloseCall(st, f[2], 1, inp)
            ELSE Err(st)
         ELSE [st EXCEPT !.mode = "operand"]
    [] st.mode = "operator" ->                        \* a complete operand is on top of vals
         ( CASE tok[1] = "op" ->
                  LET r == ReduceWhile(st, BinPrec[tok[2]]) IN
                  Adv([r EXCEPT !.ops = Append(@, <<"bin", tok[2]>>), !.mode = "operand", !.needList = (tok[2] = "in")], 1)
             [] tok[1] = "," ->
                  LET r == ReduceNamed(ReduceWhile(st, 0)) IN
                  IF Len(r.ops) = 0 THEN Err(st)
                  ELSE LET f == Top(r.ops) IN
                       IF f[1] = "grp" THEN Adv([r EXCEPT !.ops = Pop(@) \o << <<"grp", f[2] + 1, f[3]>> >>, !.mode = "items"], 1)
                       ELSE IF f[1] = "call" /\ f[4] = "named"
                            THEN Adv([r EXCEPT !.ops = Pop(@) \o << <<"call", f[2], f[3] + 1, "named">> >>, !.mode = "nameditem"], 1)
                       ELSE IF f[1] = "call"
                            THEN Adv([r EXCEPT !.ops = Pop(@) \o << <<"call", f[2], f[3] + 1, "pos">> >>, !.mode = "items"], 1)
                       ELSE Err(st)
             [] tok[1] = ")" ->
                  LET r == ReduceNamed(ReduceWhile(st, 0)) IN
                  IF Len(r.ops) = 0 THEN Err(st)
                  ELSE LET f == Top(r.ops) IN
                       IF f[1] = "grp" THEN
                          IF f[2] = 0 THEN (IF f[3] THEN Err(st) ELSE Adv([r EXCEPT !.ops = Pop(@), !.mode = "operator"], 1))
                          ELSE Adv([r EXCEPT !.ops = Pop(@),
                                             !.vals = PopN(@, f[2] + 1) \o <<Lst(LastN(r.vals, f[2] + 1))>>,
                                             !.mode = "operator"], 1)
                       ELSE IF f[1] = "call" THEN CloseCall(r, f[2], f[3] + 1, inp)
                       ELSE IF f[1] = "lam" THEN
                          Adv([r EXCEPT !.ops = Pop(@),
                                        !.vals = PopN(@, 2) \o <<Coll(r.vals[Len(r.vals) - 1], f[2], Lam(f[3], Top(r.vals)))>>,
                                        !.mode = "operator"], 1)
                       ELSE Err(st)
             [] tok[1] = "eof" ->
                  LET r == ReduceWhile(st, 0) IN
                  IF Len(r.ops) = 0 /\ Len(r.vals) = 1 THEN [r EXCEPT !.status = "accept"] ELSE Err(st)
             [] OTHER -> Err(st) )

RECURSIVE Run(_, _)
Run(st, inp) == IF st.status # "run" THEN st ELSE Run(Step(st, inp), inp)

\* result:  <<"ok", tree>> | <<"syntax">> | <<"unknown", name>> | <<"argc", name, min, max, n>>
ParseTokens(inp) ==
  IF ~WsAllLegal(inp) THEN <<"syntax">>
  ELSE LET r == Run(PInit, StripWs(inp)) IN
       IF r.status = "accept" THEN <<"ok", r.vals[1]>>
       ELSE IF r.status = "function" THEN r.err ELSE <<"syntax">>
SpecParse(inp) == LET r == ParseTokens(inp) IN IF r[1] = "ok" THEN r[2] ELSE <<"ERROR", r>>

\* ---------------------------------------------------------------- spelling
(* A piece is a TLA+ string or a sequence of code points; the text is the
   concatenation of the pieces.  w : whitespace piece used for every run. *)
Quote == 39
RECURSIVE EscapeQuotes(_)
EscapeQuotes(cps) == IF cps = <<>> THEN <<>>
                     ELSE (IF Head(cps) = Quote THEN <<Quote, Quote>> ELSE <<Head(cps)>>) \o EscapeQuotes(Tail(cps))
SpellLit(k, v) ==
  CASE k = "Integer"  -> ToString(v)
    [] k = "String"   -> <<Quote>> \o EscapeQuotes(v) \o <<Quote>>
    [] k = "Duration" -> "duration'" \o v \o "'"
    [] k = "Geography" -> "geography'" \o v \o "'"
    [] OTHER -> v
SpellTok(tok, w) ==
  CASE tok[1] = "id"  -> FullName(<<"Id", tok[2], tok[3]>>)
    [] tok[1] = "lit" -> SpellLit(tok[2], tok[3])
    [] tok[1] = "op"  -> <<w, tok[2], w>>
    [] tok[1] = "not" -> <<"not", w>>
    [] tok[1] = "neg" -> "-"
    [] tok[1] = "ws"  -> w
    [] OTHER -> tok[1]
\* pieces may nest one level (<<w, "eq", w>>); the harness flattens
Spell(toks, w) == [i \in 1..Len(toks) |-> SpellTok(toks[i], w)]
=============================================================================
